"""Engine self-test (DESIGN 2.6): small textual changes to a scratch copy of /repo/src.  Each `violation` mutant must make
the named check exit 1 with a VIOLATION line; each `held` entry is a semantics-preserving edit that must stay quiet
(exit 0).  Run: tools/selftest.py [ids...]"""
M = []


def m(id, prop, file, old, new, expect="violation", more=()):
    M.append(dict(id=id, prop=prop, file=file, old=old, new=new, expect=expect, more=tuple(more)))


# ---- C05
m("C05-right-eq-left", "C05", "padding.py", "right = padding_width - left", "right = left")
m("C05-center-ratio", "C05", "padding.py", "_ALIGN_RATIOS = ((0, 1), (1, 2), (1, 1))", "_ALIGN_RATIOS = ((0, 1), (1, 3), (1, 1))")
m("C05-resolve-floor0", "C05", "padding.py", "width = max(terminal_width + width, 1)", "width = max(terminal_width + width, 0)")
m("C05-relative-flag", "C05", "padding.py", 'not width > 0 < height)', 'not width > 0 <= height)')
m("C05-padded-size", "C05", "padding.py", "top + height + bottom)", "top + height)")
m("C05-refactor-rename", "C05", "padding.py", "            padding_width = width - render_width\n            numerator, denominator = _ALIGN_RATIOS[h_align]\n            left = padding_width * numerator // denominator\n            right = padding_width - left",
  "            extra = width - render_width\n            num, den = _ALIGN_RATIOS[h_align]\n            left = (extra * num) // den\n            right = extra - left", expect="held")
# ---- C17 / C18
m("C17-trim-off-by-one", "C17", "widget/_urwid.py", "new_pad_side1 -= trim_side2 - image_end", "new_pad_side1 -= trim_side2 - image_end - 1")
m("C18-next-z", "C18", "widget/_urwid.py", "-z_index if z_index > 0 else -z_index + 1", "-z_index if z_index > 0 else -z_index")
m("C18-del-negated", "C18", "widget/_urwid.py", "__class__._ti_free_z_indexes.add(self._ti_z_index)", "__class__._ti_free_z_indexes.add(-self._ti_z_index)")
m("C18-disguise-noop", "C18", "widget/_urwid.py", "self._ti_disguise_state = (self._ti_disguise_state + 1) % 3", "self._ti_disguise_state = (self._ti_disguise_state + 3) % 3")
# ---- C19
m("C19-revert-fix", "C19", "image/common.py", r'r"(([<|>])?(\d+)?)?\.(#(\.\d+|[0-9a-fA-F]{6}|#)?)?(\+(.+))?", re.ASCII', r'r"(([<|>])?(\d+)?)?\.(#(\.\d+|[0-9a-fA-F]{6})?)?", re.ASCII')
m("C19-hex5", "C19", "image/common.py", r'(\.([-^_])?(\d+)?)?(#(\.\d+|[0-9a-fA-F]{6}|#)?)?(\+(.+))?",' + "\n    re.ASCII,", r'(\.([-^_])?(\d+)?)?(#(\.\d+|[0-9a-fA-F]{5,6}|#)?)?(\+(.+))?",' + "\n    re.ASCII,")
# ---- C04
m("C04-or1-removed", "C04", "image/common.py", "self._pixels_lines(pixels=height_px) or 1,", "self._pixels_lines(pixels=height_px),")
m("C04-no-min", "C04", "image/common.py", "height_px = min(_height_px, frame_height)", "height_px = _height_px")
m("C04-ratio-swapped", "C04", "image/common.py", "if height_ratio > width_ratio:", "if height_ratio < width_ratio:")
m("C04-ceil-floor", "C04", "image/block.py", "return ceil(pixels / 2) if pixels is not None else lines * 2", "return pixels // 2 if pixels is not None else lines * 2")
m("C04-auto-ge", "C04", "image/common.py", "or round(ori_height * self._pixel_ratio) > frame_height", "or round(ori_height * self._pixel_ratio) >= frame_height")
m("C04-renderer-no-restore", "C04", "image/common.py", "            if isinstance(_size, Size):\n                self.size = _size", "            if isinstance(_size, Size) and not animated:\n                self.size = _size")
# ---- C15
m("C15-no-setdefault", "C15", "utils.py", "return cache.setdefault(arguments, func(*args, **kwargs))", "return func(*args, **kwargs)")
m("C15-ts-eq", "C15", "utils.py", "if not cache or ts != cache[1]:", "if not cache or ts == cache[1]:")
m("C15-key-ignores-kwargs", "C15", "utils.py", "arguments = (args, tuple(kwargs.items()))", "arguments = (args, ())")
m("C15-swap-no-reset", "C15", "__init__.py", "    if utils._swap_win_size:\n        utils._swap_win_size = False\n        with utils._cell_size_lock:\n            utils._cell_size_cache[:] = (0,) * 4", "    if utils._swap_win_size:\n        utils._swap_win_size = False")
m("C15-enable-no-invalidate", "C15", "__init__.py", '        getattr(utils.get_terminal_name_version, "_invalidate_cache")()\n', "")
# concurrency (monitor rule + scheduled thread replays)
m("C15-cached-body-outside-lock", "C15", "utils.py", "            except KeyError:\n                return cache.setdefault(arguments, func(*args, **kwargs))\n",
  "            except KeyError:\n                pass\n        result = func(*args, **kwargs)\n        with lock:\n            return cache.setdefault(arguments, result)\n")
m("C15-cached-no-lock", "C15", "utils.py", "        arguments = (args, tuple(kwargs.items()))\n        with lock:\n            try:\n                return cache[arguments]\n            except KeyError:\n                return cache.setdefault(arguments, func(*args, **kwargs))\n",
  "        arguments = (args, tuple(kwargs.items()))\n        if True:\n            try:\n                return cache[arguments]\n            except KeyError:\n                return cache.setdefault(arguments, func(*args, **kwargs))\n")
m("C15-ts-cached-body-outside-lock", "C15", "utils.py", "        with lock:\n            ts = get_terminal_size()\n            if not cache or ts != cache[1]:\n                cache = (func(*args, **kwargs), ts)\n",
  "        with lock:\n            ts = get_terminal_size()\n            stale = not cache or ts != cache[1]\n        if stale:\n            value = func(*args, **kwargs)\n            with lock:\n                cache = (value, ts)\n")
m("C15-swap-published-late", "C15", "__init__.py", "        utils._swap_win_size = True\n        with utils._cell_size_lock:\n            utils._cell_size_cache[:] = (0,) * 4\n",
  "        with utils._cell_size_lock:\n            utils._cell_size_cache[:] = (0,) * 4\n        utils._swap_win_size = True\n")
m("C15-swap-discard-without-lock", "C15", "__init__.py", "        utils._swap_win_size = True\n        with utils._cell_size_lock:\n            utils._cell_size_cache[:] = (0,) * 4\n",
  "        utils._swap_win_size = True\n        utils._cell_size_cache[:] = (0,) * 4\n")
m("C15-queries-published-late", "C15", "__init__.py", "        utils._queries_enabled = True\n        getattr(utils.get_fg_bg_colors, \"_invalidate_cache\")()\n        getattr(utils.get_terminal_name_version, \"_invalidate_cache\")()\n        with utils._cell_size_lock:\n            utils._cell_size_cache[:] = (0,) * 4\n",
  "        getattr(utils.get_fg_bg_colors, \"_invalidate_cache\")()\n        getattr(utils.get_terminal_name_version, \"_invalidate_cache\")()\n        with utils._cell_size_lock:\n            utils._cell_size_cache[:] = (0,) * 4\n        utils._queries_enabled = True\n")
m("C15-cached-unlocked-fast-path", "C15", "utils.py", "        arguments = (args, tuple(kwargs.items()))\n        with lock:\n            try:\n",
  "        arguments = (args, tuple(kwargs.items()))\n        try:\n            return cache[arguments]\n        except KeyError:\n            pass\n        with lock:\n            try:\n", expect="held")
m("C15-getter-reads-swap-before-the-lock", "C15", "utils.py", "    with _cell_size_lock, _cell_size_lock:\n        terminal_size = get_terminal_size()\n        if terminal_size == tuple(_cell_size_cache[:2]):",
  "    swap = _swap_win_size\n    with _cell_size_lock, _cell_size_lock:\n        terminal_size = get_terminal_size()\n        if terminal_size == tuple(_cell_size_cache[:2]):",
  more=[("            if _swap_win_size:\n", "            if swap:\n")])
m("C15-getter-no-lock", "C15", "utils.py", "    with _cell_size_lock, _cell_size_lock:\n        terminal_size = get_terminal_size()\n        if terminal_size == tuple(_cell_size_cache[:2]):",
  "    if True:\n        terminal_size = get_terminal_size()\n        if terminal_size == tuple(_cell_size_cache[:2]):")
m("C15-swap-lock-around-everything", "C15", "__init__.py", "        utils._swap_win_size = True\n        with utils._cell_size_lock:\n            utils._cell_size_cache[:] = (0,) * 4\n",
  "        with utils._cell_size_lock:\n            utils._swap_win_size = True\n            utils._cell_size_cache[:] = (0,) * 4\n", expect="held")
# ---- round-4 seeded changes, kept as mutants
m("C20-deleter-hasattr", "C20", "image/iterm2.py", "    @read_from_file.deleter\n    def read_from_file(self) -> None:\n        try:\n            del self._read_from_file\n        except AttributeError:\n            pass\n",
  "    @read_from_file.deleter\n    def read_from_file(self) -> None:\n        if hasattr(self, \"_read_from_file\"):\n            del self._read_from_file\n")
m("C16-hash-skips-default-objects", "C16", "renderable/_types.py", "        return hash((self.render_cls, tuple(self._namespaces.values())))",
  "        defaults = self.render_cls._ALL_DEFAULT_ARGS\n        return hash((self.render_cls, tuple([ns for cls, ns in self._namespaces.items() if ns is not defaults[cls]])))")
m("C16-convert-no-args-shortcut", "C16", "renderable/_types.py", "            render_cls_args_mro = render_cls._ALL_DEFAULT_ARGS\n", "            render_cls_args_mro = render_cls._ALL_DEFAULT_ARGS\n            if not render_cls_args_mro:\n                return BASE_RENDER_ARGS\n")
m("C04-fit-width-truncated", "C04", "image/common.py", "                width_px = round((height_px / _height_px) * _width_px)", "                width_px = int((height_px / _height_px) * _width_px)")
m("C04-fit-height-truncated", "C04", "image/common.py", "                height_px = round((width_px / _width_px) * _height_px)", "                height_px = int((width_px / _width_px) * _height_px)")
m("C07-new-api-flush-outside-try", "C07", "renderable/_renderable.py", "                    write(frame.render_output.replace(\"\\n\", cursor_to_next_render_line))\n                    flush()\n                except KeyboardInterrupt:\n                    self._handle_interrupted_draw_(render_data, render_args, output)\n                    return\n\n                write(cursor_to_render_top_left)",
  "                    write(frame.render_output.replace(\"\\n\", cursor_to_next_render_line))\n                except KeyboardInterrupt:\n                    self._handle_interrupted_draw_(render_data, render_args, output)\n                    return\n\n                write(cursor_to_render_top_left)")
m("C07-new-api-still-flush-outside-try", "C07", "renderable/_renderable.py", "                try:\n                    output.write(render)\n                    output.flush()\n                except KeyboardInterrupt:",
  "                output.write(render)\n                try:\n                    output.flush()\n                except KeyboardInterrupt:")
m("C18-spec-z-index-wins", "C18", "widget/_urwid.py", "            style_args[\"z_index\"] = self._ti_z_index = self._ti_get_z_index()", "            self._ti_z_index = self._ti_get_z_index()\n            style_args.setdefault(\"z_index\", self._ti_z_index)")
m("C01-kitty-whole-delete-per-line", "C01", "image/kitty.py", "        fill_newline = fill + \"\\n\"\n", "        fill_newline = fill + \"\\n\" + KITTY_DELETE_CURSOR * (not blend)\n")
m("C02-kitty-bg-workaround-blank-cells-only", "C02", "image/block.py", "                if is_on_kitty and cluster2 == bg_color:", "                if is_on_kitty and cluster1 == cluster2 == bg_color:")
m("C08-padded-size-from-renderable", "C08", "render/_iterator.py", "        self._padded_size = self._padding.get_padded_size(self._renderable_data.size)\n\n    def set_render_args", "        self._padded_size = self._padding.get_padded_size(self._renderable.render_size)\n\n    def set_render_args")
m("C09-cache-keyed-by-hash-of-args", "C09", "render/_iterator.py", "                    renderable_data.duration,\n                    self._render_args,\n                ):", "                    renderable_data.duration,\n                    hash(self._render_args),\n                ):",
  more=[("                            renderable_data.duration,\n                            self._render_args,\n                        )", "                            renderable_data.duration,\n                            hash(self._render_args),\n                        )")])
m("C15-invalidate-without-lock", "C15", "utils.py", "    def invalidate() -> None:\n        with lock:\n            cache.clear()\n", "    def invalidate() -> None:\n        cache.clear()\n")
m("C06-animate-reads-live-size", "C06", "renderable/_renderable.py", "        render_size: Size = render_data[Renderable].size\n        height = render_size.height\n", "        render_size = self.render_size\n        height = render_size.height\n")
m("C11-block-closes-frame-image", "C11", "image/block.py", "        if frame_img is not img:\n            self._close_image(img)\n", "        self._close_image(img)\n")
m("C11-kitty-closes-frame-image", "C11", "image/kitty.py", "        if frame_img is not img:\n            self._close_image(img)\n", "        self._close_image(img)\n")
m("C11-iterm2-closes-frame-image", "C11", "image/iterm2.py", "        if frame_img is not img:\n            self._close_image(img)\n", "        self._close_image(img)\n")
m("C11-kitty-never-closes-converted-image", "C11", "image/kitty.py", "        if frame_img is not img:\n            self._close_image(img)\n", "        pass\n")
m("C17-flow-render-skips-set-size", "C17", "widget/_urwid.py", "            if self._ti_sizing is Size.FIT:\n                image.set_size(size[0])\n            else:\n                fit_size = self._ti_image._valid_size(size[0])\n                ori_size = self._ti_image._valid_size(Size.ORIGINAL)",
  "            if self._ti_sizing is Size.FIT:\n                if image.width != size[0]:\n                    image.set_size(size[0])\n            else:\n                fit_size = self._ti_image._valid_size(size[0])\n                ori_size = self._ti_image._valid_size(Size.ORIGINAL)")
# ---- round-5 seeded changes, kept as mutants
m("C11-close-image-after-close-revert", "C11", "image/common.py", "        if (\n            self._source_type is not ImageSource.PIL_IMAGE\n            or img is not getattr(self, \"_source\", img)\n        ):\n            img.close()\n", "        if img is not self._source:\n            img.close()\n")
m("C11-close-image-default-none", "C11", "image/common.py", "            or img is not getattr(self, \"_source\", img)\n", "            or img is not getattr(self, \"_source\", None)\n")
m("C04-fit-axis-from-float-product", "C04", "image/common.py", "            if height_ratio > width_ratio:\n                _height_px = _height_px * self._pixel_ratio", "            if _height_px < frame_height:\n                _height_px = _height_px * self._pixel_ratio")
m("C12-query-drain-instead-of-flush", "C12", "utils.py", "        termios.tcsetattr(_tty_fd, termios.TCSAFLUSH, new_attr)\n        write_tty(request)", "        termios.tcsetattr(_tty_fd, termios.TCSADRAIN, new_attr)\n        write_tty(request)")
m("C13-drain-inside-finally", "C13", "utils.py", "        return read_tty(more, timeout or _query_timeout)\n    finally:\n        termios.tcsetattr(_tty_fd, termios.TCSANOW, old_attr)", "        return read_tty(more, timeout or _query_timeout)\n    finally:\n        read_tty()\n        termios.tcsetattr(_tty_fd, termios.TCSANOW, old_attr)")
m("C15-ts-cached-stamp-after-call", "C15", "utils.py", "            ts = get_terminal_size()\n            if not cache or ts != cache[1]:\n                cache = (func(*args, **kwargs), ts)", "            if not cache or get_terminal_size() != cache[1]:\n                cache = (func(*args, **kwargs), get_terminal_size())")
m("C18-forced-support-ignored-by-tracking", "C18", "widget/_urwid.py", "        if not (\n            KittyImage.forced_support\n            or KittyImage.is_supported()\n            or ITerm2Image.is_supported()", "        if not (\n            KittyImage.is_supported()\n            or ITerm2Image.is_supported()")
m("C20-animated-draw-drops-method-override", "C20", "image/iterm2.py", "        if not mix and self._TERM == \"wezterm\":\n            r_width, r_height = self.rendered_size\n            lines = max(fmt[-1], r_height)", "        if self._render_method.lower() == ANIM:\n            kwargs[\"method\"] = WHOLE\n        if not mix and self._TERM == \"wezterm\":\n            r_width, r_height = self.rendered_size\n            lines = max(fmt[-1], r_height)")
# (ImageIterator cache keyed on the width only: seeded/C09-wt5-C09-2, three sites)
m("C05-padded-size-lexicographic-shortcut", "C05", "padding.py", "        return _Size(max(self.width, render_size[0]), max(self.height, render_size[1]))", "        if self.size <= render_size:\n            return render_size\n        return _Size(max(self.width, render_size[0]), max(self.height, render_size[1]))")
m("C08-set-padding-freezes-to-exact", "C08", "render/_iterator.py", "            else padding\n        )\n        self._padded_size = self._padding.get_padded_size(self._renderable_data.size)", "            else padding\n        ).to_exact(self._renderable_data.size)\n        self._padded_size = self._padding.get_padded_size(self._renderable_data.size)")
m("C16-update-skips-namespaces-already-held", "C16", "renderable/_types.py", "            namespaces = (render_cls_or_namespace, *namespaces)\n", "            namespaces = tuple(ns for ns in (render_cls_or_namespace, *namespaces) if ns not in self)\n")
m("C02-alpha-path-only-with-a-transparent-band-minimum", "C02", "image/block.py", "        alpha = img.mode == \"RGBA\"\n", "        alpha = img.mode == \"RGBA\" and img.getextrema()[3][0] == 0\n")
m("C03-iterm2-anim-fallback-not-encoded", "C03", "image/iterm2.py", "            if render_method == LINES:\n                raw_image = io.BytesIO(img.tobytes())", "            if render_method != WHOLE:\n                raw_image = io.BytesIO(img.tobytes())")
# ---- round-6 seeded changes, kept as mutants
m("C20-iterm2-size-from-the-image's-own-method", "C20", "image/iterm2.py", "            self._get_minimal_render_size()\n            if render_method == WHOLE\n", "            self._get_minimal_render_size()\n            if self._render_method == WHOLE\n")
m("C20-falsy-method-unsets", "C20", "image/common.py", "        if method is not None and not isinstance(method, str):\n            raise arg_type_error(\"method\", method)\n        if method is not None and method.lower() not in type(self)._render_methods:",
  "        if method and not isinstance(method, str):\n            raise arg_type_error(\"method\", method)\n        if isinstance(method, str) and method.lower() not in type(self)._render_methods:")
m("C12-terminator-alternation-unbracketed", "C12", "_ctlseqs.py", "    ST_or_BEL = f\"(?:{ST_escaped}|{BEL})\"", "    ST_or_BEL = f\"{ST_escaped}|{BEL}\"")
m("C10-set-padding-identity-fast-path", "C10", "render/_iterator.py", "        if self._closed:\n            raise FinalizedIteratorError(\"This iterator has been finalized\") from None\n\n        self._padding = (\n            padding.resolve(get_terminal_size())", "        if padding is self._padding:\n            return\n        if self._closed:\n            raise FinalizedIteratorError(\"This iterator has been finalized\") from None\n\n        self._padding = (\n            padding.resolve(get_terminal_size())")
m("C06-allow-scroll-from-animated", "C06", "renderable/_renderable.py", "            allow_scroll=not animation and allow_scroll,", "            allow_scroll=allow_scroll and not self.animated,")
m("C11-size-setter-rejects-closed-image", "C11", "image/common.py", "    @size.setter\n    def size(self, size: Size | Tuple[int, int]) -> None:", "    @size.setter\n    @_close_validated\n    def size(self, size: Size | Tuple[int, int]) -> None:")
m("C17-placeholder-gets-the-widget-size", "C17", "widget/_urwid.py", "            canv = type(self)._ti_error_placeholder.render(size, focus)", "            canv = type(self)._ti_error_placeholder.render((size[0],), focus)")
m("C07-kitty-handler-writes-elsewhere", "C07", "image/kitty.py", "        print(ctlseqs.ST * 2 + ctlseqs.KITTY_END_CHUNKED, end=\"\", flush=True)", "        sys.__stdout__.write(ctlseqs.ST * 2 + ctlseqs.KITTY_END_CHUNKED)", expect="undecided")
m("C07-kitty-handler-no-terminator", "C07", "image/kitty.py", "        print(ctlseqs.ST * 2 + ctlseqs.KITTY_END_CHUNKED, end=\"\", flush=True)", "        print(ctlseqs.KITTY_END_CHUNKED, end=\"\", flush=True)")   # (without the terminators the end-of-chunks command itself lands inside the open string)
m("C07-iterm2-handler-removed", "C07", "image/iterm2.py", "        print(ctlseqs.ST * 2, end=\"\", flush=True)", "        pass")
m("C02-mode-read-before-seek", "C02", "image/common.py", "        if self._is_animated:\n            img.seek(self._seek_position)\n", "", expect="violation")
m("C15-swap-inverted", "C15", "utils.py", "            if _swap_win_size:\n                text_area_size = text_area_size[::-1]", "            if not _swap_win_size:\n                text_area_size = text_area_size[::-1]")
m("C15-cache-width-only", "C15", "utils.py", "if terminal_size == tuple(_cell_size_cache[:2]):", "if terminal_size[0] == _cell_size_cache[0]:")
m("C15-fixed-not-snapshot", "C15", "__init__.py", "            _cell_ratio = truediv(*(get_cell_size() or (1, 2)))\n        else:\n            _cell_ratio = None", "            _cell_ratio = None\n        else:\n            _cell_ratio = None")
m("C15-dont-cache-unknown", "C15", "utils.py", "        _cell_size_cache[:] = terminal_size + cell_size\n", "        if 0 not in cell_size:\n            _cell_size_cache[:] = terminal_size + cell_size\n")
# ---- C13
m("C13-restore-new", "C13", "utils.py", "        termios.tcsetattr(_tty_fd, termios.TCSANOW, old_attr)\n\n    return bytes(input)", "        termios.tcsetattr(_tty_fd, termios.TCSANOW, new_attr)\n\n    return bytes(input)")
m("C13-alias", "C13", "utils.py", "    new_attr = termios.tcgetattr(_tty_fd)\n    new_attr[3] &= ~termios.ICANON", "    new_attr = old_attr\n    new_attr[3] &= ~termios.ICANON")
m("C13-except-exception", "C13", "utils.py", "        return read_tty(more, timeout or _query_timeout)\n    finally:\n        termios.tcsetattr(_tty_fd, termios.TCSANOW, old_attr)",
  "        return read_tty(more, timeout or _query_timeout)\n    except Exception:\n        termios.tcsetattr(_tty_fd, termios.TCSANOW, old_attr)\n        raise\n    else:\n        termios.tcsetattr(_tty_fd, termios.TCSANOW, old_attr)")
m("C13-set-before-try", "C13", "utils.py", "    try:\n        termios.tcsetattr(_tty_fd, termios.TCSAFLUSH, new_attr)\n        write_tty(request)", "    termios.tcsetattr(_tty_fd, termios.TCSAFLUSH, new_attr)\n    try:\n        write_tty(request)")
# ---- C08 / C09 / C10 iterator
m("C09-cache-ignores-args", "C09", "render/_iterator.py", "                    renderable_data.duration,\n                    self._render_args,\n                ):", "                    renderable_data.duration,\n                    frame_details[2],\n                ):")
m("C08-offset-plus2", "C08", "render/_iterator.py", "                    renderable_data.frame_offset += 1", "                    renderable_data.frame_offset += 2")
m("C08-loop-gt1", "C08", "render/_iterator.py", "            if loop > 0:  # Avoid", "            if loop > 1:  # Avoid")
m("C08-ignore-seek", "C08", "render/_iterator.py", "                if definite:\n                    frame_no = renderable_data.frame_offset", "                if definite:\n                    frame_no = frame_no + 1")
m("C09-cache-prev", "C09", "render/_iterator.py", "frame = (cache_entry := cache[frame_no])[0]", "frame = (cache_entry := cache[frame_no - 1])[0]")
m("C08-indef-no-whence-reset", "C08", "render/_iterator.py", "renderable_data.update(frame_offset=0, seek_whence=CURRENT)", "renderable_data.update(frame_offset=0)")
m("C09-pad-width-only", "C09", "render/_iterator.py", "                if self._padded_size != frame.render_size:", "                if self._padded_size[0] != frame.render_size[0]:")
m("C10-finalize-inverted", "C10", "render/_iterator.py", "            if self._finalize_data:\n                self._render_data.finalize()", "            if not self._finalize_data:\n                self._render_data.finalize()")
m("C10-closed-not-set", "C10", "render/_iterator.py", "            del self._render_data\n            self._closed = True", "            del self._render_data")
m("C08-seek-end", "C08", "render/_iterator.py", "else frame_count + offset - 1", "else frame_count + offset")
m("C08-seek-range", "C08", "render/_iterator.py", "            if not 0 <= frame < frame_count:", "            if not 0 <= frame <= frame_count:")
m("C10-error-no-close", "C10", "render/_iterator.py", "        except Exception:\n            self.close()\n            raise", "        except Exception:\n            raise")
m("C10-ownership-ignored", "C10", "render/_iterator.py", "        new._finalize_data = finalize", "        new._finalize_data = True")
m("C08-size-no-psize", "C08", "render/_iterator.py", "        self._renderable_data.size = render_size\n        self._padded_size = self._padding.get_padded_size(render_size)", "        self._renderable_data.size = render_size")
m("C08-revert-padding-fix", "C08", "render/_iterator.py", "self._padded_size = self._padding.get_padded_size(self._renderable_data.size)", "self._padded_size = padding.get_padded_size(self._renderable_data.size)")
# ---- _animate_
m("C06-up-one-too-many", "C06", "renderable/_renderable.py", 'f"\\r{cursor_up(height + pad_bottom - 1)}{cursor_forward(pad_left)}"', 'f"\\r{cursor_up(height + pad_bottom)}{cursor_forward(pad_left)}"')
m("C06-down-one-too-many", "C06", "renderable/_renderable.py", "write(cursor_down(height + pad_bottom - 1))", "write(cursor_down(height + pad_bottom))")
m("C06-next-line-no-forward", "C06", "renderable/_renderable.py", 'cursor_to_next_render_line = f"\\n{cursor_forward(pad_left)}"', 'cursor_to_next_render_line = "\\n"')
m("C06-no-cr", "C06", "renderable/_renderable.py", 'f"\\r{cursor_up(height - 1)}{cursor_forward(pad_left)}"', 'f"{cursor_up(height - 1)}{cursor_forward(pad_left)}"')
m("C07-animate-ki-propagates", "C07", "renderable/_renderable.py", "        except KeyboardInterrupt:\n            pass\n        finally:\n            render_iter.close()", "        finally:\n            render_iter.close()")
m("C10-animate-finalize-true", "C10", "renderable/_renderable.py", "            False if loops == 1 else cache,\n            finalize=False,", "            False if loops == 1 else cache,\n            finalize=True,")
# ---- Renderable.draw
m("C07-revert-draw-ki-fix", "C07", "renderable/_renderable.py", "        except KeyboardInterrupt:\n            # Animations are documented to end without raising `KeyboardInterrupt`\n            if not animation:\n                raise\n        finally:", "        finally:")
m("C07-hide-before-try", "C07", "renderable/_renderable.py", "        try:\n            if hide_cursor:\n                output.write(HIDE_CURSOR)\n            if not_echo_input:", "        if hide_cursor:\n            output.write(HIDE_CURSOR)\n        try:\n            if not_echo_input:")
m("C13-draw-no-restore", "C13", "renderable/_renderable.py", "            if not_echo_input:\n                termios.tcsetattr(output_fd, termios.TCSANOW, old_attr)\n            render_data.finalize()", "            render_data.finalize()")
m("C10-draw-no-finalize", "C10", "renderable/_renderable.py", "                termios.tcsetattr(output_fd, termios.TCSANOW, old_attr)\n            render_data.finalize()", "                termios.tcsetattr(output_fd, termios.TCSANOW, old_attr)")
m("C07-still-ki-swallowed", "C07", "renderable/_renderable.py", "                    self._handle_interrupted_draw_(\n                        render_data, real_render_args, output\n                    )\n                    raise", "                    self._handle_interrupted_draw_(\n                        render_data, real_render_args, output\n                    )")
m("C06-draw-no-newline", "C06", "renderable/_renderable.py", '        finally:\n            output.write("\\n")\n            if hide_cursor:', "        finally:\n            if hide_cursor:")
m("C06-draw-check-size-ignored", "C06", "renderable/_renderable.py", "            check_size=animation or check_size,", "            check_size=check_size,")
m("C07-show-cursor-conditional", "C07", "renderable/_renderable.py", "            if hide_cursor:\n                output.write(SHOW_CURSOR)", "            if hide_cursor and not animation:\n                output.write(SHOW_CURSOR)")
# ---- _init_render_ / finalize
m("C10-finalize-else", "C10", "renderable/_types.py", "            try:\n                self.render_cls._finalize_render_data_(self)\n            finally:\n                self.finalized = True", "            self.render_cls._finalize_render_data_(self)\n            self.finalized = True")
m("C10-init-render-finalize-inverted", "C10", "renderable/_renderable.py", "        finally:\n            if finalize:\n                render_data.finalize()", "        finally:\n            if not finalize:\n                render_data.finalize()")
m("C06-height-ge", "C06", "renderable/_renderable.py", "                if not allow_scroll and height > terminal_height:", "                if not allow_scroll and height >= terminal_height:")
m("C06-width-unchecked", "C06", "renderable/_renderable.py", "                if width > terminal_width:", "                if width > terminal_width + 1:")
# ---- Padding.pad placement
m("C05-pad-bottom-short", "C05", "padding.py", 'bottom_padding = f"\\n{fill * width}" * bottom if bottom else ""', 'bottom_padding = f"\\n{fill * (width - 1)}" * bottom if bottom else ""')
m("C05-pad-replace-swapped", "C05", "padding.py", 'render.replace("\\n", f"{right_padding}\\n{left_padding}")', 'render.replace("\\n", f"{left_padding}\\n{right_padding}")')
m("C05-pad-top-uses-left", "C05", "padding.py", 'top_padding = f"{fill * width}\\n" * top if top else ""', 'top_padding = f"{fill * width}\\n" * left if top else ""')
m("C05-pad-empty-fill-writes", "C05", "padding.py", "            left_padding = cursor_forward(left)\n", "            left_padding = ' ' * left\n")
m("C05-pad-vertical-only-skips-right", "C05", "padding.py", "        horizontal = left or right", "        horizontal = left")
# ---- C01 block
m("C01-block-trailing-nl", "C01", "image/block.py", "            if row_no < height:  # last line not yet rendered", "            if row_no <= height:  # last line not yet rendered")
m("C01-block-run-short", "C01", "image/block.py", "                    buf_write(SGR_DEFAULT)\n                    buf_write(blank * n)\n                elif a_cluster1 == 0:", "                    buf_write(SGR_DEFAULT)\n                    buf_write(blank * (n - 1))\n                elif a_cluster1 == 0:")
m("C01-block-no-final-reset", "C01", "image/block.py", "        buf_write(SGR_DEFAULT)  # Reset color after last line\n", "")
m("C01-block-n-not-reset", "C01", "image/block.py", "                        a_cluster2 = a2\n                    n = 0\n", "                        a_cluster2 = a2\n")
m("C01-block-kitty-r-overflow", "C01", "image/block.py", "                    r += r < 255 or -1", "                    r += 1")
m("C01-sgr-template-broken", "C01", "_ctlseqs.py", 'SGR_FG_DIRECT = SGR % f"38;2;{Pm(3)}"', 'SGR_FG_DIRECT = SGR % f"38;2;{Pm(3)}" + CSI')
m("C01-sgr-template-4params", "C01", "_ctlseqs.py", 'SGR_BG_DIRECT = SGR % f"48;2;{Pm(3)}"', 'SGR_BG_DIRECT = SGR % f"48;2;{Pm(2)}"')
m("C01-block-equiv-dead-store", "C01", "image/block.py", "            row_no += 2\n            n = 0\n", "            row_no += 2\n            n = 1\n            n = 0\n", expect="held")
# ---- C02 block pixels
m("C02-lower-from-upper", "C02", "image/block.py", "                    cluster1 = px1\n                    cluster2 = px2", "                    cluster1 = px1\n                    cluster2 = px1")
m("C02-kitty-adjusts-fg", "C02", "image/block.py", "                    buf_write(SGR_FG_DIRECT % cluster1)\n                    buf_write(upper_pixel * n)\n\n        buffer", "                    buf_write(SGR_FG_DIRECT % (r, g, b))\n                    buf_write(upper_pixel * n)\n\n        buffer")
m("C02-alpha-transition-dropped", "C02", "image/block.py", "                        or 0 == a_cluster1 != a1\n", "")
m("C02-up-transparent-uses-upper-glyph", "C02", "image/block.py", "                    buf_write(SGR_FG_DIRECT % cluster2)\n                    buf_write(lower_pixel * n)", "                    buf_write(SGR_FG_DIRECT % cluster2)\n                    buf_write(upper_pixel * n)")
m("C02-second-row-offset", "C02", "image/block.py", "zip(rgb[x : x + width], rgb[x + width : x + width * 2]),", "zip(rgb[x : x + width], rgb[x + width + 1 : x + width * 2 + 1]),")
m("C02-px2-ignored", "C02", "image/block.py", "                    or px2 != cluster2\n", "")
m("C02-glyph-constants-swapped", "C02", "image/block.py", 'LOWER_PIXEL = "\\u2584"', 'LOWER_PIXEL = "\\u2580"')
# ---- kitty chunking
m("C03-chunk-4095", "C03", "image/kitty.py", "def get_chunks(self, size: int = 4096)", "def get_chunks(self, size: int = 4095)")
m("C03-m-flag-from-chunk", "C03", "image/kitty.py", 'm={bool(next_chunk):d}', 'm={bool(chunk):d}')
m("C03-last-m-1", "C03", "image/kitty.py", 'yield KITTY_TRANSMISSION % ("m=0", chunk)', 'yield KITTY_TRANSMISSION % ("m=1", chunk)')
m("C03-drops-final-chunk", "C03", "image/kitty.py", "            if chunk:  # false if there was never a next chunk\n                yield KITTY_TRANSMISSION % (\"m=0\", chunk)", "            pass")
m("C03-control-in-every-chunk", "C03", "image/kitty.py", 'yield KITTY_TRANSMISSION % ("m=1", chunk)', 'yield KITTY_TRANSMISSION % (f"{self.get_control_data()},m=1", chunk)')
m("C03-apc-unterminated", "C01", "_ctlseqs.py", 'KITTY_TRANSMISSION = f"{KITTY_START}{Pt};{Pt}{ST}"', 'KITTY_TRANSMISSION = f"{KITTY_START}{Pt};{Pt}"')
# ---- kitty _render_image
m("C03-cell-height-by-width", "C03", "image/kitty.py", "            cell_height = height // r_height", "            cell_height = height // r_width")
m("C03-lines-v-is-height", "C03", "image/kitty.py", "            vars(control_data).update(v=cell_height, r=1)", "            vars(control_data).update(v=height, r=1)")
m("C01-kitty-fill-erase-height", "C01", "image/kitty.py", 'fill = ("" if mix else ERASE_CHARS % r_width) + (CURSOR_FORWARD % r_width)', 'fill = ("" if mix else ERASE_CHARS % r_height) + (CURSOR_FORWARD % r_width)')
m("C01-kitty-fill-forward-short", "C01", "image/kitty.py", 'fill = ("" if mix else ERASE_CHARS % r_width) + (CURSOR_FORWARD % r_width)', 'fill = ("" if mix else ERASE_CHARS % r_width) + (CURSOR_FORWARD % (r_width - 1))')
m("C01-kitty-whole-extra-line", "C01", "image/kitty.py", "                fill_newline * (r_height - 1),\n                fill,", "                fill_newline * r_height,\n                fill,")
m("C01-kitty-lines-missing-last-fill", "C01", "image/kitty.py", "                buffer.write(fill)\n\n                return buffer.getvalue()", "                return buffer.getvalue()")
m("C03-whole-r-one", "C03", "image/kitty.py", "        vars(control_data).update(v=height, r=r_height)", "        vars(control_data).update(v=height, r=1)")
m("C03-bpl-no-format", "C03", "image/kitty.py", "            bytes_per_line = width * cell_height * (format // 8)", "            bytes_per_line = width * cell_height * 4")
m("C03-c-is-pixel-width", "C03", "image/kitty.py", "control_data = ControlData(f=format, s=width, c=r_width, z=z_index)", "control_data = ControlData(f=format, s=width, c=width, z=z_index)")
# ---- iterm2 _render_image
m("C03-iterm2-no-truncate", "C03", "image/iterm2.py", "                    compressed_image.truncate()\n", "")
m("C03-iterm2-no-seek0", "C03", "image/iterm2.py", "                for line in range(1, r_height + 1):\n                    compressed_image.seek(0)\n", "                for line in range(1, r_height + 1):\n")
m("C01-iterm2-trailing-nl", "C01", "image/iterm2.py", '                    line < r_height and buffer.write("\\n")', '                    line <= r_height and buffer.write("\\n")')
m("C01-iterm2-cursor-up-too-far", "C01", "image/iterm2.py", 'cursor_up = CURSOR_UP % (r_height - 1) if r_height > 1 else ""', 'cursor_up = CURSOR_UP % r_height if r_height > 1 else ""')
m("C01-iterm2-konsole-no-forward", "C01", "image/iterm2.py", "                    is_on_konsole and buffer.write(cursor_right)\n", "")
m("C03-iterm2-konsole-flag-inverted", "C03", "image/iterm2.py", "                    f\"{';doNotMoveCursor=1' * is_on_konsole}:\"\n                )\n            )\n            compressed_image.seek(0)\n            return \"\".join(\n                (\n                    (\n                        \"\"\n                        if is_on_konsole\n                        else f\"{erase}{cursor_right}\\n\" * (r_height - 1)\n                    ),\n                    erase,\n                    \"\" if is_on_konsole else cursor_up,\n                    ITERM2_START,\n                    control_data,\n                    standard_b64encode(compressed_image.read()).decode(),\n                    ST,\n                    f\"{cursor_right}\\n\" * (r_height - 1) if is_on_konsole else \"\",\n                    cursor_right * is_on_konsole,\n                )\n            )\n\n\n_stdout_write", "                    f\"{';doNotMoveCursor=1' * (not is_on_konsole)}:\"\n                )\n            )\n            compressed_image.seek(0)\n            return \"\".join(\n                (\n                    (\n                        \"\"\n                        if is_on_konsole\n                        else f\"{erase}{cursor_right}\\n\" * (r_height - 1)\n                    ),\n                    erase,\n                    \"\" if is_on_konsole else cursor_up,\n                    ITERM2_START,\n                    control_data,\n                    standard_b64encode(compressed_image.read()).decode(),\n                    ST,\n                    f\"{cursor_right}\\n\" * (r_height - 1) if is_on_konsole else \"\",\n                    cursor_right * is_on_konsole,\n                )\n            )\n\n\n_stdout_write")
m("C11-iterm2-lines-stream-leak", "C11", "image/iterm2.py", "            with io.StringIO() as buffer, raw_image, compressed_image:", "            with io.StringIO() as buffer, raw_image:")
m("C03-iterm2-size-before-seek-end", "C03", "image/iterm2.py", "        with compressed_image:\n            compressed_image.seek(0, 2)\n            control_data", "        with compressed_image:\n            compressed_image.seek(0)\n            control_data")
m("C01-iterm2-whole-height-minus-1", "C01", "image/iterm2.py", "                    f\";height={r_height};preserveAspectRatio=0;inline=1\"\n                    f\"{';doNotMoveCursor=1' * is_on_konsole}:\"\n                )\n            )\n            compressed_image.seek(0)\n            return \"\".join(\n                (\n                    (\n                        \"\"\n                        if is_on_konsole\n                        else f\"{erase}{cursor_right}\\n\" * (r_height - 1)\n                    ),\n                    erase,\n                    \"\" if is_on_konsole else cursor_up,\n                    ITERM2_START,\n                    control_data,\n                    standard_b64encode(compressed_image.read()).decode(),\n                    ST,\n                    f\"{cursor_right}\\n\" * (r_height - 1) if is_on_konsole else \"\",\n                    cursor_right * is_on_konsole,\n                )\n            )\n\n\n_stdout", "                    f\";height={r_height - 1};preserveAspectRatio=0;inline=1\"\n                    f\"{';doNotMoveCursor=1' * is_on_konsole}:\"\n                )\n            )\n            compressed_image.seek(0)\n            return \"\".join(\n                (\n                    (\n                        \"\"\n                        if is_on_konsole\n                        else f\"{erase}{cursor_right}\\n\" * (r_height - 1)\n                    ),\n                    erase,\n                    \"\" if is_on_konsole else cursor_up,\n                    ITERM2_START,\n                    control_data,\n                    standard_b64encode(compressed_image.read()).decode(),\n                    ST,\n                    f\"{cursor_right}\\n\" * (r_height - 1) if is_on_konsole else \"\",\n                    cursor_right * is_on_konsole,\n                )\n            )\n\n\n_stdout")
# ---- old API _format_render
m("C05-revert-format-render-fix", "C05", "image/common.py", "top = f\"{' ' * max(width, cols)}\\n\" * top", "top = f\"{' ' * width}\\n\" * top")
m("C05-format-render-center-right", "C05", "image/common.py", "                right = \" \" * (width - cols - len(left))", "                right = \" \" * ((width - cols) // 2)")
m("C05-format-render-bottom-align", "C05", "image/common.py", "            elif v_align == \"_\":  # bottom\n                top = height - lines\n                bottom = 0", "            elif v_align == \"_\":  # bottom\n                top = height - lines - 1\n                bottom = 1")
# ---- _get_render_data
m("C02-blend-skipped-for-zero-threshold", "C02", "image/common.py", "                if round_alpha:\n                    bg = Image.new(", "                if round_alpha and alpha:\n                    bg = Image.new(")
m("C02-threshold-le", "C02", "image/common.py", "a = [0 if val < alpha else 255 for val in a]", "a = [0 if val <= alpha else 255 for val in a]")
m("C02-composite-then-convert-swapped", "C02", "image/common.py", "                bg.alpha_composite(img)\n                if frame_img is not img:\n                    self._close_image(img)\n                img = bg.convert(\"RGB\")", "                if frame_img is not img:\n                    self._close_image(img)\n                img = bg.convert(\"RGB\")")
m("C02-resize-when-equal", "C02", "image/common.py", "            if img.size != size:\n                prev_img = img", "            if True:\n                prev_img = img")
m("C11-prev-img-close-inverted", "C11", "image/common.py", "                finally:\n                    if frame_img is not prev_img:\n                        self._close_image(prev_img)\n\n            if img.size != size:", "                finally:\n                    if frame_img is prev_img:\n                        self._close_image(prev_img)\n\n            if img.size != size:")
m("C11-close-image-closes-source", "C11", "image/common.py", "        if (\n            self._source_type is not ImageSource.PIL_IMAGE\n            or img is not getattr(self, \"_source\", img)\n        ):\n            img.close()\n", "        img.close()\n")
m("C02-opaque-modes-missing-L", "C02", "image/common.py", 'if alpha is None or img.mode in {"1", "L", "RGB", "HSV", "CMYK"}:\n            convert_resize_img("RGB")', 'if alpha is None or img.mode in {"1", "RGB", "HSV", "CMYK"}:\n            convert_resize_img("RGB")')
# ---- format spec interpretation
m("C19-default-height", "C19", "image/common.py", "                int(height) if height else -2,", "                int(height) if height else -1,")
m("C19-zero-height-as-default", "C19", "image/common.py", "                int(height) if height else -2,", "                int(height or 0) or -2,")
m("C19-bare-hash-keeps-default-alpha", "C19", "image/common.py", "                threshold_or_bg\n                and (", "                (threshold_or_bg or _ALPHA_THRESHOLD)\n                and (")
m("C19-width-height-swapped", "C19", "image/common.py", "                h_align,\n                int(width) if width else 0,\n                v_align,\n                int(height) if height else -2,", "                h_align,\n                int(height) if height else 0,\n                v_align,\n                int(width) if width else -2,")
# ---- C20
m("C20-revert-render-method-fix", "C20", "image/common.py", "            if \"_default_render_method\" in vars(cls):\n                # A style class that defines its own render methods falls back to\n                # its own default\n                cls._render_method = cls._default_render_method\n            else:\n                # Otherwise, follow the parent style class again\n                try:\n                    del cls._render_method\n                except AttributeError:\n                    pass", "            if cls._render_methods:\n                cls._render_method = cls._default_render_method")
m("C20-jpeg-quality-writes-class", "C20", "image/iterm2.py", "        self._jpeg_quality = quality", "        type(self)._jpeg_quality = quality")
m("C20-jpeg-default-zero", "C20", "image/iterm2.py", 'lambda self: getattr(self, "_jpeg_quality", -1),', 'lambda self: getattr(self, "_jpeg_quality", 0),')
m("C20-jpeg-validate-after-write", "C20", "image/iterm2.py", "        if quality > 95:\n            raise arg_value_error_range(\"jpeg_quality\", quality)\n\n        self._jpeg_quality = quality", "        self._jpeg_quality = quality\n        if quality > 95:\n            raise arg_value_error_range(\"jpeg_quality\", quality)")
m("C20-read-from-file-del-raises", "C20", "image/iterm2.py", "        try:\n            del self._read_from_file\n        except AttributeError:\n            pass", "        del self._read_from_file")
m("C20-native-anim-on-self", "C20", "image/iterm2.py", "        __class__._native_anim_max_bytes = max_bytes", "        self._native_anim_max_bytes = max_bytes")
m("C20-forced-support-accepts-int", "C20", "image/common.py", "        if not isinstance(status, bool):\n            raise arg_type_error(\"forced_support\", status)", "        if not isinstance(status, int):\n            raise arg_type_error(\"forced_support\", status)")
m("C20-instance-unset-sets-default", "C20", "image/common.py", "            try:\n                del self._render_method\n            except AttributeError:\n                pass", "            self._render_method = type(self)._default_render_method")
# ---- C12
m("C12-revert-x-parse-color-fix", "C12", "_ctlseqs.py", "        int(component, 16) * 255 // ((1 << len(component) * 4) - 1)\n        for component in rgb", "        int(component, 16) * 255 // ((1 << len(rgb[0]) * 4) - 1)\n        for component in rgb")
m("C12-x-parse-color-256", "C12", "_ctlseqs.py", "int(component, 16) * 255 // ((1 << len(component) * 4) - 1)", "int(component, 16) * 256 // (1 << len(component) * 4)")
m("C12-revert-iterm2-version-fix", "C12", "image/iterm2.py", '(version or "").split(".")', 'version.split(".")')
m("C12-kitty-version-gt", "C12", "image/kitty.py", "                        if version_tuple >= (0, 20, 0):", "                        if version_tuple > (0, 20, 0):")
m("C12-konsole-min-version", "C12", "image/iterm2.py", ">= (22, 4, 0)", ">= (22, 40, 0)")
m("C12-kitty-on-iterm2-queries", "C12", "image/kitty.py", '            if get_terminal_name_version()[0] == "iterm2":\n                return False\n', "")
m("C12-auto-order", "C12", "image/__init__.py", "_styles = (KittyImage, ITerm2Image, BlockImage)", "_styles = (ITerm2Image, KittyImage, BlockImage)")
m("C12-kitty-ignores-message", "C12", "image/kitty.py", 'if response and response["id"] == "31" and response["message"] == "OK":', 'if response and response["id"] == "31":')
m("C12-fg-bg-swapped", "C12", "utils.py", '            if c == "10":\n                fg = ctlseqs.x_parse_color(spec)\n            elif c == "11":\n                bg = ctlseqs.x_parse_color(spec)', '            if c == "11":\n                fg = ctlseqs.x_parse_color(spec)\n            elif c == "10":\n                bg = ctlseqs.x_parse_color(spec)')
m("C12-read-when-disabled", "C12", "utils.py", "            lambda s: not s.endswith(ctlseqs.CSI_b),\n        )\n        if _queries_enabled:\n            read_tty()  # The rest of the response to DA1\n\n    fg = bg = None", "            lambda s: not s.endswith(ctlseqs.CSI_b),\n        )\n        read_tty()  # The rest of the response to DA1\n\n    fg = bg = None")
# ---- C16 RenderArgs.__init__
m("C16-no-copy-of-defaults", "C16", "renderable/_types.py", "        namespaces_dict = render_cls._ALL_DEFAULT_ARGS.copy()", "        namespaces_dict = render_cls._ALL_DEFAULT_ARGS")
m("C16-first-wins", "C16", "renderable/_types.py", "            namespaces_dict[namespace._RENDER_CLS] = namespace\n\n        super().__init__(render_cls, namespaces_dict)", "            if index == 0 or namespaces[index - 1]._RENDER_CLS is not namespace._RENDER_CLS:\n                namespaces_dict[namespace._RENDER_CLS] = namespace\n\n        super().__init__(render_cls, namespaces_dict)")
m("C16-init-set-ignored", "C16", "renderable/_types.py", "            namespaces_dict.update(init_render_args._namespaces)\n", "            pass\n")
m("C16-incompatible-namespace-accepted", "C16", "renderable/_types.py", "            if namespace._RENDER_CLS not in namespaces_dict:\n                raise IncompatibleArgsNamespaceError(", "            if namespace._RENDER_CLS not in namespaces_dict and index:\n                raise IncompatibleArgsNamespaceError(")
m("C16-intern-non-default", "C16", "renderable/_types.py", "        if intern:\n            type(self)._interned[render_cls] = self", "        if intern or not namespaces:\n            type(self)._interned[render_cls] = self")
m("C16-update-drops-self", "C16", "renderable/_types.py", "        return RenderArgs(\n            self.render_cls,\n            self,\n            *((self[render_cls].update(**fields),) if render_cls else namespaces),", "        return RenderArgs(\n            self.render_cls,\n            *((self[render_cls].update(**fields),) if render_cls else namespaces),")
m("C16-convert-parent-keeps-all", "C16", "renderable/_types.py", "                    if cls in render_cls_args_mro\n", "")
m("C16-hash-ignores-class", "C16", "renderable/_types.py", "        return hash((self.render_cls, tuple(self._namespaces.values())))", "        return hash((self.render_cls, len(self._namespaces)))", expect="held")
m("C16-eq-ignores-class", "C16", "renderable/_types.py", "                or self.render_cls is other.render_cls\n                and self._namespaces == other._namespaces", "                or self._namespaces == other._namespaces")
m("C16-or-precedence", "C16", "renderable/_types.py", "            if issubclass(self_render_cls, other_render_cls):\n                return RenderArgs(self_render_cls, self, other)\n            if issubclass(other_render_cls, self_render_cls):\n                return RenderArgs(other_render_cls, self, other)", "            if issubclass(self_render_cls, other_render_cls):\n                return RenderArgs(self_render_cls, other, self)\n            if issubclass(other_render_cls, self_render_cls):\n                return RenderArgs(other_render_cls, self, other)")
m("C16-new-returns-init-for-other-class", "C16", "renderable/_types.py", "                and type(init_render_args) is cls\n                and init_render_args.render_cls is render_cls\n", "                and type(init_render_args) is cls\n")
# ---- C18 screen
m("C18-revert-frozenset-fix", "C18", "widget/_urwid.py", "                self._ti_image_cviews = frozenset()\n            return", "                self._ti_image_cviews.clear()\n            return")
m("C18-end-sync-not-in-finally", "C18", "widget/_urwid.py", "            return super().draw_screen(maxres, canvas)\n        finally:\n            self.write(END_SYNCED_UPDATE)\n            self.flush()", "            ret = super().draw_screen(maxres, canvas)\n            self.write(END_SYNCED_UPDATE)\n            self.flush()\n            return ret\n        finally:\n            pass")
m("C18-begin-after-clear", "C18", "widget/_urwid.py", "        self.write(BEGIN_SYNCED_UPDATE)\n        try:\n            if canvas is not self._ti_screen_canv:\n                self._ti_screen_canv = canvas\n                self._ti_clear_images()", "        try:\n            if canvas is not self._ti_screen_canv:\n                self._ti_screen_canv = canvas\n                self._ti_clear_images()\n            self.write(BEGIN_SYNCED_UPDATE)")
m("C18-stop-no-clear", "C18", "widget/_urwid.py", "    def _stop(self):\n        self.clear_images()\n        return super()._stop()", "    def _stop(self):\n        return super()._stop()")
m("C18-clear-widget-no-disguise", "C18", "widget/_urwid.py", "                    kitty_widgets.append(widget)\n                    widget._ti_change_disguise()", "                    kitty_widgets.append(widget)")
m("C18-delete-all-not-now", "C18", "widget/_urwid.py", "            if now:\n                write_tty(ctlseqs.KITTY_DELETE_ALL_b)\n            else:\n                self.write(ctlseqs.KITTY_DELETE_ALL)", "            self.write(ctlseqs.KITTY_DELETE_ALL)")
m("C18-tail-no-delete-for-non-kitty", "C18", "widget/_urwid.py", "            else:\n                self.clear_images()\n                # Multiple `clear_images()`s messes up the canvas disguise\n                # A single `clear_images()` takes care of all images anyways\n                break", "            else:\n                break")
m("C18-tail-keeps-old-views", "C18", "widget/_urwid.py", "        self._ti_image_cviews = frozenset(image_cviews)", "        self._ti_image_cviews = frozenset(self._ti_image_cviews | image_cviews)")
m("C18-tail-diff-reversed", "C18", "widget/_urwid.py", "for canv, *_ in self._ti_image_cviews - image_cviews:", "for canv, *_ in image_cviews - self._ti_image_cviews:")
m("C18-tail-listed-once-rewritten", "C18", "widget/_urwid.py", "                if widget not in kitty_widgets:\n                    kitty_widgets.append(widget)\n", "                if widget in kitty_widgets:\n                    continue\n                kitty_widgets.append(widget)\n", expect="held")
# ---- C17 content()
m("C17-first-sgr-only", "C17", "widget/_urwid.py", 'cell[: cell.rindex(b"m") + 1]', 'cell[: cell.index(b"m") + 1]')
m("C17-no-color-reset", "C17", "widget/_urwid.py", "                    if image_size[0] > trim_image_right > 0\n", "                    if image_size[0] > trim_image_right > 1\n")
m("C17-search-from-til", "C17", "widget/_urwid.py", "for cell in line[trim_image_left - 1 :: -1]:", "for cell in line[trim_image_left::-1]:", expect="held")
m("C17-no-break", "C17", "widget/_urwid.py", "                                    (None, \"U\", cell[: cell.rindex(b\"m\") + 1]),\n                                )\n                                break", "                                    (None, \"U\", cell[: cell.rindex(b\"m\") + 1]),\n                                )")
m("C17-extra-top-row", "C17", "widget/_urwid.py", "for _ in range(new_pad_top):", "for _ in range(new_pad_top + 1):")
m("C17-graphics-right-trim", "C17", "widget/_urwid.py", "        elif trim_left or trim_right:\n            line = b\" \" * visible_cols", "        elif trim_left:\n            line = b\" \" * visible_cols")
m("C17-padline-fullwidth", "C17", "widget/_urwid.py", 'padding_line = b" " * visible_cols + b"\\0\\0"', 'padding_line = b" " * size[0] + b"\\0\\0"')
m("C17-center-roundup", "C17", "widget/_urwid.py", "                    pad_left = pad // 2\n", "                    pad_left = (pad + 1) // 2\n")
m("C17-vtrim-off-by-one", "C17", "widget/_urwid.py", "                for line in self._ti_lines[trim_top : -trim_bottom or None]:\n                    yield [(None, \"U\", line.replace", "                for line in self._ti_lines[trim_top + 1 : -trim_bottom or None]:\n                    yield [(None, \"U\", line.replace")
# ---- C19 style part
m("C19-style-search-later-fields", "C19", "image/common.py", "            match = pattern.match(spec, pos=end)", "            match = pattern.search(spec, end)")
m("C19-style-no-invalid-check", "C19", "image/common.py", "        if invalid:\n            raise StyleError(", "        if invalid and not fields:\n            raise StyleError(")
m("C19-style-kitty-order", "C19", "image/kitty.py", 'r"[LW] z-?\\d+ m[01] c[0-9]".split(" ")', 'r"[LW] m[01] z-?\\d+ c[0-9]".split(" ")')
m("C19-style-kitty-mix-inverted", "C19", "image/kitty.py", '            args["mix"] = bool(int(mix[-1]))\n        if compress:\n            args["compress"] = int(compress[-1])\n\n        return cls._check_style_args(args)\n\n    @classmethod\n    def _clear_frame', '            args["mix"] = not bool(int(mix[-1]))\n        if compress:\n            args["compress"] = int(compress[-1])\n\n        return cls._check_style_args(args)\n\n    @classmethod\n    def _clear_frame')
m("C19-style-kitty-z-sign", "C19", "image/kitty.py", 'args["z_index"] = int(z_index[1:])', 'args["z_index"] = abs(int(z_index[1:]))')
m("C19-style-iterm2-anim", "C19", "image/iterm2.py", '{"L": LINES, "W": WHOLE, "A": ANIM}[method]', '{"L": LINES, "W": WHOLE, "A": WHOLE}[method]')
m("C19-style-start-end-names", "C19", "image/common.py", "        parent, invalid = spec[:start], spec[end:]\n        if invalid:", "        invalid = spec[end:]\n        parent = spec[:start]\n        if invalid:", expect="held")
# ---- old-API ImageIterator (C09 / C11)
m("C09-imgiter-hash-once", "C09", "image/common.py", "                        cache[n] = (frame, hash(image.rendered_size))\n\n            sent = yield frame\n            n = n + 1 if sent is None else sent - 1\n\n        if cached:",
  "                        cache[n] = (frame, hash(self._image.rendered_size) if n else cache[0][1] or hash(image.rendered_size))\n\n            sent = yield frame\n            n = n + 1 if sent is None else sent - 1\n\n        if cached:")
m("C09-imgiter-hash-eq", "C09", "image/common.py", "                    if hash(image.rendered_size) != size_hash:", "                    if hash(image.rendered_size) == size_hash:")
m("C11-imgiter-seek-off-by-one", "C11", "image/common.py", "                sent = yield frame\n                n = n + 1 if sent is None else sent - 1\n\n            image._seek_position = n = 0", "                sent = yield frame\n                n = n + 1 if sent is None else sent\n\n            image._seek_position = n = 0")
m("C11-imgiter-no-rewind", "C11", "image/common.py", "            image._seek_position = n = 0\n            if repeat > 0:  # Avoid infinitely large negative numbers\n                self._loop_no = repeat = repeat - 1\n\n        # For consistency", "            n = 0\n            if repeat > 0:  # Avoid infinitely large negative numbers\n                self._loop_no = repeat = repeat - 1\n\n        # For consistency")
m("C11-imgiter-loopno-stale", "C11", "image/common.py", "                    if repeat > 0:  # Avoid infinitely large negative numbers\n                        self._loop_no = repeat = repeat - 1\n                    if cached:", "                    if repeat > 0:  # Avoid infinitely large negative numbers\n                        repeat = repeat - 1\n                    if cached:")
m("C11-imgiter-renamed", "C11", "image/common.py", "            if sent is None:\n                image._seek_position = n\n                try:", "            if sent is None:\n                image._seek_position = n + 0\n                try:", expect="held")
m("C11-imgiter-close-no-image", "C11", "image/common.py", "            self._image._close_image(self._img)\n            del self._img", "            del self._img")
m("C11-imgiter-next-no-close", "C11", "image/common.py", "        except Exception:\n            self.close()\n            raise\n\n    def __repr__(self) -> str:\n        return (\n            \"{}(image={!r}, repeat={}", "        except Exception:\n            raise\n\n    def __repr__(self) -> str:\n        return (\n            \"{}(image={!r}, repeat={}")
m("C11-imgiter-next-attr-inverted", "C11", "image/common.py", "            if str(e).endswith(\"'_animator'\"):", "            if not str(e).endswith(\"'_animator'\"):")
m("C11-imgiter-seek-range", "C11", "image/common.py", "        if not 0 <= pos < self._image.n_frames:\n            raise arg_value_error_range(\"pos\", pos, f\"n_frames", "        if not 0 <= pos <= self._image.n_frames:\n            raise arg_value_error_range(\"pos\", pos, f\"n_frames")
m("C11-imgiter-close-order", "C11", "image/common.py", "            self._animator.close()\n            del self._animator\n            self._image._close_image(self._img)\n            del self._img", "            animator = self._animator\n            del self._animator\n            animator.close()\n            self._image._close_image(self._img)\n            del self._img", expect="held")
# ---- old-API draw / _display_animated (C06 / C07): each repaired defect, reverted
m("C06-old-cursor-up-zero", "C06", "image/common.py", '        cursor_up = CURSOR_UP % (lines - 1) if lines > 1 else ""\n', "        cursor_up = CURSOR_UP % (lines - 1)\n")
m("C06-old-cursor-down-always", "C06", "image/common.py", "            if not completed:\n                print(cursor_down, end=\"\")", "            print(cursor_down, end=\"\")")
m("C07-old-hide-before-try", "C07", "image/common.py", "            try:\n                # Hide the cursor immediately if the output is a terminal device\n                sys.stdout.isatty() and print(HIDE_CURSOR, end=\"\", flush=True)\n", "            sys.stdout.isatty() and print(HIDE_CURSOR, end=\"\", flush=True)\n            try:\n")
m("C07-old-anim-interrupt-propagates", "C07", "image/common.py", "            except KeyboardInterrupt:\n                # Animations are terminated silently\n                if not animation:\n                    raise\n            finally:\n                # Reset color and show the cursor", "            finally:\n                # Reset color and show the cursor")
m("C06-wezterm-erase-rows", "C06", "image/iterm2.py", '* (r_height - 1) + erase_and_move_cursor', '* (lines - 1) + erase_and_move_cursor')
m("C06-wezterm-cursor-up-zero", "C06", "image/iterm2.py", '                CURSOR_UP % (lines - 1) if lines > 1 else "",\n', "                CURSOR_UP % (lines - 1),\n")
m("C07-old-no-show-cursor", "C07", "image/common.py", 'print(SGR_DEFAULT, SHOW_CURSOR * sys.stdout.isatty(), sep="")', 'print(SGR_DEFAULT, sep="")')
m("C11-old-seek-not-restored", "C11", "image/common.py", "            self._close_image(img)\n            self._seek_position = prev_seek_pos\n", "            self._close_image(img)\n")
m("C07-old-handler-dropped", "C07", "image/common.py", "        except KeyboardInterrupt:\n            self._handle_interrupted_draw()\n        except Exception:\n            self._handle_interrupted_draw()\n            raise\n        finally:\n            image_it.close()", "        except KeyboardInterrupt:\n            pass\n        except Exception:\n            self._handle_interrupted_draw()\n            raise\n        finally:\n            image_it.close()")
m("C06-old-still-harmless", "C06", "image/common.py", "        animation = self._is_animated and animate\n", "        animation = bool(self._is_animated and animate)\n", expect="held")
# ---- C12 read loops / name + version
m("C12-drain-once", "C12", "utils.py", "            while select(r, w, x, 0.0)[0]:\n                input.extend(os.read(_tty_fd, 100))", "            if select(r, w, x, 0.0)[0]:\n                input.extend(os.read(_tty_fd, 100))")
m("C12-timed-read-100", "C12", "utils.py", "                    input.extend(os.read(_tty_fd, 1))\n", "                    input.extend(os.read(_tty_fd, 100))\n")
m("C12-timed-ignores-predicate", "C12", "utils.py", "            while (timeout < 0 or duration < timeout) and more(input):", "            while (timeout < 0 or duration < timeout) and (more(input) or not input):")
m("C12-name-not-lowered", "C12", "utils.py", "    return (name and name.lower(), version)", "    return (name, version)")
m("C12-name-no-drain", "C12", "utils.py", "        if _queries_enabled:\n            read_tty()  # The rest of the response to DA1\n\n    match = response and ctlseqs.XTVERSION_re", "        if _queries_enabled and response:\n            read_tty()  # The rest of the response to DA1\n\n    match = response and ctlseqs.XTVERSION_re")
m("C12-name-stop-at-c", "C12", "utils.py", "            ctlseqs.XTVERSION_b + ctlseqs.DA1_b,\n            # The response might contain a \"c\"; can't stop reading at \"c\"\n            lambda s: not s.endswith(ctlseqs.CSI_b),",
  "            ctlseqs.XTVERSION_b + ctlseqs.DA1_b,\n            # The response might contain a \"c\"; can't stop reading at \"c\"\n            lambda s: not s.endswith(b\"c\"),")
m("C12-timed-equivalent", "C12", "utils.py", "                duration = monotonic() - start\n            # logging.debug(duration)", "                now = monotonic()\n                duration = now - start\n            # logging.debug(duration)", expect="held")
# ---- split-cell structure of the block render (C17 relies on it)
m("C17-block-no-bg-for-blank-runs", "C17", "image/block.py", "                buf_write(SGR_BG_DIRECT % (r, g, b))\n                if cluster1 == cluster2:\n                    buf_write(blank * n)",
  "                if cluster1 == cluster2:\n                    buf_write(blank * n)\n                    return\n                buf_write(SGR_BG_DIRECT % (r, g, b))\n                if cluster1 == cluster2:\n                    buf_write(blank * n)")
m("C17-block-keep-last-nul", "C17", "image/block.py", "                buffer.seek(buffer.tell() - 1)", "                pass")
m("C02-block-transparent-up-no-fg", "C02", "image/block.py", "                    buf_write(SGR_DEFAULT)\n                    buf_write(SGR_FG_DIRECT % cluster1)\n                    buf_write(upper_pixel * n)\n                else:\n                    no_alpha = True",
  "                    buf_write(SGR_DEFAULT)\n                    buf_write(upper_pixel * n)\n                else:\n                    no_alpha = True")
# ---- C20: the method a render actually uses
m("C20-kitty-override-case", "C20", "image/kitty.py", "        render_method = (method or self._render_method).lower()", "        render_method = method or self._render_method.lower()")
m("C20-iterm2-override-ignored", "C20", "image/iterm2.py", "        render_method = (method or self._render_method).lower()", "        render_method = self._render_method.lower()")
m("C20-kitty-method-harmless", "C20", "image/kitty.py", "        render_method = (method or self._render_method).lower()", "        render_method = (method if method else self._render_method).lower()", expect="held")
# ---- C11 URL-sourced images
m("C11-url-close-no-remove", "C11", "image/common.py", "                    try:\n                        os.remove(self._source)\n                    except FileNotFoundError:\n                        pass\n                    del self._url", "                    del self._url")
m("C11-url-fd-left-open", "C11", "image/common.py", "        os.write(fd, response.content)\n        os.close(fd)\n", "        os.write(fd, response.content)\n")
m("C11-url-close-remove-any-source", "C11", "image/common.py", "                if self._source_type is ImageSource.URL:\n                    try:\n                        os.remove(self._source)", "                if self._source_type is not ImageSource.PIL_IMAGE:\n                    try:\n                        os.remove(self._source)")
# ---- C18: a widget with several vanished views is cleared once
m("C18-widget-listed-per-view", "C18", "widget/_urwid.py", "                if widget not in kitty_widgets:\n                    kitty_widgets.append(widget)", "                kitty_widgets.append(widget)")
# ---- C16 namespace class definition rules
m("C16-meta-two-bases", "C16", "renderable/_types.py", "            if len(bases) > 1:\n                raise RenderArgsDataError(\"Multiple base classes\")", "            if len(bases) > 2:\n                raise RenderArgsDataError(\"Multiple base classes\")")
m("C16-meta-reassociation-still-rejected", "C16", "renderable/_types.py", "                if base._associated:\n                    raise RenderArgsDataError(", "                if base._associated and not fields:\n                    raise RenderArgsDataError(", expect="held")   # the other rules reject the same cases
m("C16-meta-default-optional", "C16", "renderable/_types.py", "                    name: namespace[name]\n                    for name in namespace.get(\"__annotations__\", ())", "                    name: namespace.get(name)\n                    for name in namespace.get(\"__annotations__\", ())")
m("C16-meta-args-not-recorded", "C16", "renderable/_types.py", "                render_cls.Args = args_cls\n", "                pass\n")
m("C16-meta-second-args-accepted", "C16", "renderable/_types.py", "                if render_cls.Args:\n                    raise RenderArgsError(", "                if render_cls.Args and False:\n                    raise RenderArgsError(")
# ---- round 7: one mutant per clause added after the seventh round of independently seeded changes, plus harmless variants
m("C10-del-closes-only-the-generator", "C10", "render/_iterator.py", "    def __del__(self) -> None:\n        try:\n            self.close()\n", "    def __del__(self) -> None:\n        try:\n            self._iterator.close()\n")
m("C10-del-harmless", "C10", "render/_iterator.py", "    def __del__(self) -> None:\n        try:\n            self.close()\n        except AttributeError:\n            pass\n",
  "    def __del__(self) -> None:\n        try:\n            self.close()\n        except AttributeError:\n            return None\n", expect="held")
m("C08-args-of-a-subclass-accepted", "C08", "render/_iterator.py", "            if render_args.render_cls is render_cls\n", "            if issubclass(render_args.render_cls, render_cls)\n")
m("C10-duration-check-before-closed-check", "C10", "render/_iterator.py",
  "        if self._closed:\n            raise FinalizedIteratorError(\"This iterator has been finalized\") from None\n\n        if isinstance(duration, int) and duration <= 0:\n            raise arg_value_error_range(\"duration\", duration)\n",
  "        if isinstance(duration, int) and duration <= 0:\n            raise arg_value_error_range(\"duration\", duration)\n\n        if self._closed:\n            raise FinalizedIteratorError(\"This iterator has been finalized\") from None\n")
m("C15-size-stamp-before-the-query", "C15", "utils.py", "        # First try ioctl\n        buf = array(\"H\", [0, 0, 0, 0])\n", "        _cell_size_cache[:2] = terminal_size\n        # First try ioctl\n        buf = array(\"H\", [0, 0, 0, 0])\n",
  more=[("        _cell_size_cache[:] = terminal_size + cell_size\n", "        _cell_size_cache[2:] = cell_size\n")])
m("C15-cache-zeroed-before-the-query-harmless", "C15", "utils.py", "        # First try ioctl\n        buf = array(\"H\", [0, 0, 0, 0])\n", "        _cell_size_cache[:] = (0,) * 4\n        # First try ioctl\n        buf = array(\"H\", [0, 0, 0, 0])\n", expect="held")
m("C06-old-pad-width-only-with-check-size", "C06", "image/common.py", "        if pad_width > terminal_width:\n", "        if check_size and pad_width > terminal_width:\n")
m("C06-old-pad-height-not-validated", "C06", "image/common.py", "        if animation and pad_height > terminal_height:\n", "        if animation and check_size and pad_height > terminal_height:\n")
m("C07-iterm2-handler-only-on-a-tty", "C07", "image/iterm2.py", "        print(ctlseqs.ST * 2, end=\"\", flush=True)\n", "        sys.stdout.isatty() and print(ctlseqs.ST * 2, end=\"\", flush=True)\n")
m("C18-view-recorded-without-its-rows", "C18", "widget/_urwid.py", "image_cviews.add((canv, row, col, *trim, cols, rows))", "image_cviews.add((canv, row, col, *trim, cols))")
m("C18-view-recorded-without-its-trim", "C18", "widget/_urwid.py", "image_cviews.add((canv, row, col, *trim, cols, rows))", "image_cviews.add((canv, row, col, cols, rows))")
m("C18-view-key-reordered-harmless", "C18", "widget/_urwid.py", "image_cviews.add((canv, row, col, *trim, cols, rows))", "image_cviews.add((canv, col, row, cols, rows, *trim))", expect="held")
m("C18-noncomposite-deletes-by-widget", "C18", "widget/_urwid.py", "            if self._ti_image_cviews:\n                self.clear_images()\n",
  "            if self._ti_image_cviews:\n                self.clear_images(*{canv.widget_info[0] for canv, *_ in self._ti_image_cviews})\n")
m("C20-anim-limit-written-to-the-class's-own-metaclass", "C20", "image/iterm2.py", "        __class__._native_anim_max_bytes = max_bytes\n", "        type(self)._native_anim_max_bytes = max_bytes\n")
m("C16-or-same-class-set-shortcut", "C16", "renderable/_types.py", "            other_render_cls = other.render_cls\n            if issubclass(self_render_cls, other_render_cls):",
  "            other_render_cls = other.render_cls\n            if self_render_cls is other_render_cls:\n                return +self\n            if issubclass(self_render_cls, other_render_cls):")
m("C16-update-fields-through-to_render_args", "C16", "renderable/_types.py",
  "        return RenderArgs(\n            self.render_cls,\n            self,\n            *((self[render_cls].update(**fields),) if render_cls else namespaces),\n        )",
  "        if render_cls:\n            return self[render_cls].update(**fields).to_render_args(self.render_cls)\n        return RenderArgs(self.render_cls, self, *namespaces)")
m("C16-update-split-harmless", "C16", "renderable/_types.py",
  "        return RenderArgs(\n            self.render_cls,\n            self,\n            *((self[render_cls].update(**fields),) if render_cls else namespaces),\n        )",
  "        if render_cls:\n            return RenderArgs(self.render_cls, self, self[render_cls].update(**fields))\n        return RenderArgs(self.render_cls, self, *namespaces)", expect="held")
m("C02-source-info-popped", "C02", "image/common.py", "        if alpha is None or img.mode in {\"1\", \"L\", \"RGB\", \"HSV\", \"CMYK\"}:\n            convert_resize_img(\"RGB\")\n",
  "        if alpha is None or img.mode in {\"1\", \"L\", \"RGB\", \"HSV\", \"CMYK\"}:\n            img.info.pop(\"transparency\", None)\n            convert_resize_img(\"RGB\")\n")
m("C02-blend-only-if-some-pixel-is-transparent", "C02", "image/common.py", "                        a = [0 if val < alpha else 255 for val in a]\n", "                        a = [0 if val < alpha else 255 for val in a]\n                        round_alpha = 0 in a\n")
m("C11-iterm2-anim-fallback-to-lines", "C11", "image/iterm2.py", "            if render_method == LINES:\n                raw_image = io.BytesIO(img.tobytes())", "            if render_method != WHOLE:\n                raw_image = io.BytesIO(img.tobytes())",
  more=[("        if render_method == LINES:\n            # NOTE: It's more efficient", "        if render_method != WHOLE:\n            # NOTE: It's more efficient")])
m("C03-iterm2-file-gate-animated-still", "C03", "image/iterm2.py", "            and not self._is_animated\n            and file_is_readable\n", "            and not frame\n            and file_is_readable\n")
m("C03-get_chunked-fast-path-counts-bytes", "C03", "image/kitty.py", "    def get_chunked(self) -> str:\n        return \"\".join(self.get_chunks())\n",
  "    def get_chunked(self) -> str:\n        if len(self.payload) <= 4096:\n            return KITTY_TRANSMISSION % (f\"{self.get_control_data()},m=0\", self.encode().decode(\"ascii\"))\n        return \"\".join(self.get_chunks())\n")
m("C03-get_chunked-larger-chunks", "C03", "image/kitty.py", "        return \"\".join(self.get_chunks())\n", "        return \"\".join(self.get_chunks(8192))\n")
m("C03-get_chunked-fast-path-counts-characters-harmless", "C03", "image/kitty.py", "    def get_chunked(self) -> str:\n        return \"\".join(self.get_chunks())\n",
  "    def get_chunked(self) -> str:\n        if len(self.payload) <= 3072:\n            return KITTY_TRANSMISSION % (f\"{self.get_control_data()},m=0\", self.encode().decode(\"ascii\"))\n        return \"\".join(self.get_chunks())\n", expect="held")
m("C01-forced-support-skips-is_supported", "C01", "image/common.py", "        if not (cls.is_supported() or cls._forced_support):", "        if not (cls._forced_support or cls.is_supported()):")
m("C01-auto-recognised-only-as-width", "C01", "image/common.py", "            if Size.AUTO in (width, height):\n                width = height = (", "            if width is Size.AUTO:\n                width = (")
