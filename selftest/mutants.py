"""Engine self-test (DESIGN 2.6): small textual changes to a scratch copy of /repo/src.  Each `violation` mutant must make
the named check exit 1 with a VIOLATION line; each `held` entry is a semantics-preserving edit that must stay quiet
(exit 0).  Run: tools/selftest.py [ids...]"""
M = []


def m(id, prop, file, old, new, expect="violation"):
    M.append(dict(id=id, prop=prop, file=file, old=old, new=new, expect=expect))


# ---- C05
m("C05-right-eq-left", "C05", "padding.py", "right = padding_width - left", "right = left")
m("C05-center-ratio", "C05", "padding.py", "_ALIGN_RATIOS = ((0, 1), (1, 2), (1, 1))", "_ALIGN_RATIOS = ((0, 1), (1, 3), (1, 1))")
m("C05-resolve-floor0", "C05", "padding.py", "width = max(terminal_width + width, 1)", "width = max(terminal_width + width, 0)")
m("C05-relative-flag", "C05", "padding.py", 'not width > 0 < height)', 'not width > 0 <= height)')
m("C05-padded-size", "C05", "padding.py", "top + height + bottom)", "top + height)")
m("C05-refactor-rename", "C05", "padding.py", "            padding_width = width - render_width\n            numerator, denominator = _ALIGN_RATIOS[h_align]\n            left = padding_width * numerator // denominator\n            right = padding_width - left",
  "            extra = width - render_width\n            num, den = _ALIGN_RATIOS[h_align]\n            left = (extra * num) // den\n            right = extra - left", expect="held")
# ---- C17 / C18
m("C17-trim-off-by-one", "C17", "widget/_urwid.py", "new_pad_side1 -= trim_side2 - image_end", "new_pad_side1 -= trim_side2 - image_end - 1")
m("C18-next-z", "C18", "widget/_urwid.py", "-z_index if z_index > 0 else -z_index + 1", "-z_index if z_index > 0 else -z_index")
m("C18-del-negated", "C18", "widget/_urwid.py", "__class__._ti_free_z_indexes.add(self._ti_z_index)", "__class__._ti_free_z_indexes.add(-self._ti_z_index)")
m("C18-disguise-noop", "C18", "widget/_urwid.py", "self._ti_disguise_state = (self._ti_disguise_state + 1) % 3", "self._ti_disguise_state = (self._ti_disguise_state + 3) % 3")
# ---- C19
m("C19-revert-fix", "C19", "image/common.py", r'r"(([<|>])?(\d+)?)?\.(#(\.\d+|[0-9a-fA-F]{6}|#)?)?(\+(.+))?", re.ASCII', r'r"(([<|>])?(\d+)?)?\.(#(\.\d+|[0-9a-fA-F]{6})?)?", re.ASCII')
m("C19-hex5", "C19", "image/common.py", r'(\.([-^_])?(\d+)?)?(#(\.\d+|[0-9a-fA-F]{6}|#)?)?(\+(.+))?",' + "\n    re.ASCII,", r'(\.([-^_])?(\d+)?)?(#(\.\d+|[0-9a-fA-F]{5,6}|#)?)?(\+(.+))?",' + "\n    re.ASCII,")
# ---- C04
m("C04-or1-removed", "C04", "image/common.py", "self._pixels_lines(pixels=height_px) or 1,", "self._pixels_lines(pixels=height_px),")
m("C04-no-min", "C04", "image/common.py", "height_px = min(_height_px, frame_height)", "height_px = _height_px")
m("C04-ratio-swapped", "C04", "image/common.py", "if height_ratio > width_ratio:", "if height_ratio < width_ratio:")
m("C04-ceil-floor", "C04", "image/block.py", "return ceil(pixels / 2) if pixels is not None else lines * 2", "return pixels // 2 if pixels is not None else lines * 2")
m("C04-auto-ge", "C04", "image/common.py", "or round(ori_height * self._pixel_ratio) > frame_height", "or round(ori_height * self._pixel_ratio) >= frame_height")
m("C04-renderer-no-restore", "C04", "image/common.py", "            if isinstance(_size, Size):\n                self.size = _size", "            if isinstance(_size, Size) and not animated:\n                self.size = _size")
# ---- C15
m("C15-no-setdefault", "C15", "utils.py", "return cache.setdefault(arguments, func(*args, **kwargs))", "return func(*args, **kwargs)")
m("C15-ts-eq", "C15", "utils.py", "if not cache or ts != cache[1]:", "if not cache or ts == cache[1]:")
m("C15-key-ignores-kwargs", "C15", "utils.py", "arguments = (args, tuple(kwargs.items()))", "arguments = (args, ())")
m("C15-swap-no-reset", "C15", "__init__.py", "    if utils._swap_win_size:\n        utils._swap_win_size = False\n        with utils._cell_size_lock:\n            utils._cell_size_cache[:] = (0,) * 4", "    if utils._swap_win_size:\n        utils._swap_win_size = False")
m("C15-enable-no-invalidate", "C15", "__init__.py", '        getattr(utils.get_terminal_name_version, "_invalidate_cache")()\n', "")
m("C15-swap-inverted", "C15", "utils.py", "            if _swap_win_size:\n                text_area_size = text_area_size[::-1]", "            if not _swap_win_size:\n                text_area_size = text_area_size[::-1]")
m("C15-cache-width-only", "C15", "utils.py", "if terminal_size == tuple(_cell_size_cache[:2]):", "if terminal_size[0] == _cell_size_cache[0]:")
m("C15-fixed-not-snapshot", "C15", "__init__.py", "            _cell_ratio = truediv(*(get_cell_size() or (1, 2)))\n        else:\n            _cell_ratio = None", "            _cell_ratio = None\n        else:\n            _cell_ratio = None")
m("C15-dont-cache-unknown", "C15", "utils.py", "        _cell_size_cache[:] = terminal_size + cell_size\n", "        if 0 not in cell_size:\n            _cell_size_cache[:] = terminal_size + cell_size\n", expect="held")
# ---- C13
m("C13-restore-new", "C13", "utils.py", "        termios.tcsetattr(_tty_fd, termios.TCSANOW, old_attr)\n\n    return bytes(input)", "        termios.tcsetattr(_tty_fd, termios.TCSANOW, new_attr)\n\n    return bytes(input)")
m("C13-alias", "C13", "utils.py", "    new_attr = termios.tcgetattr(_tty_fd)\n    new_attr[3] &= ~termios.ICANON", "    new_attr = old_attr\n    new_attr[3] &= ~termios.ICANON")
m("C13-except-exception", "C13", "utils.py", "        return read_tty(more, timeout or _query_timeout)\n    finally:\n        termios.tcsetattr(_tty_fd, termios.TCSANOW, old_attr)",
  "        return read_tty(more, timeout or _query_timeout)\n    except Exception:\n        termios.tcsetattr(_tty_fd, termios.TCSANOW, old_attr)\n        raise\n    else:\n        termios.tcsetattr(_tty_fd, termios.TCSANOW, old_attr)")
m("C13-set-before-try", "C13", "utils.py", "    try:\n        termios.tcsetattr(_tty_fd, termios.TCSAFLUSH, new_attr)\n        write_tty(request)", "    termios.tcsetattr(_tty_fd, termios.TCSAFLUSH, new_attr)\n    try:\n        write_tty(request)")
# ---- C08 / C09 / C10 iterator
m("C09-cache-ignores-args", "C09", "render/_iterator.py", "                    renderable_data.duration,\n                    self._render_args,\n                ):", "                    renderable_data.duration,\n                    frame_details[2],\n                ):")
m("C08-offset-plus2", "C08", "render/_iterator.py", "                    renderable_data.frame_offset += 1", "                    renderable_data.frame_offset += 2")
m("C08-loop-gt1", "C08", "render/_iterator.py", "            if loop > 0:  # Avoid", "            if loop > 1:  # Avoid")
m("C08-ignore-seek", "C08", "render/_iterator.py", "                if definite:\n                    frame_no = renderable_data.frame_offset", "                if definite:\n                    frame_no = frame_no + 1")
m("C09-cache-prev", "C09", "render/_iterator.py", "frame = (cache_entry := cache[frame_no])[0]", "frame = (cache_entry := cache[frame_no - 1])[0]")
m("C08-indef-no-whence-reset", "C08", "render/_iterator.py", "renderable_data.update(frame_offset=0, seek_whence=CURRENT)", "renderable_data.update(frame_offset=0)")
m("C09-pad-width-only", "C09", "render/_iterator.py", "                if self._padded_size != frame.render_size:", "                if self._padded_size[0] != frame.render_size[0]:")
m("C10-finalize-inverted", "C10", "render/_iterator.py", "            if self._finalize_data:\n                self._render_data.finalize()", "            if not self._finalize_data:\n                self._render_data.finalize()")
m("C10-closed-not-set", "C10", "render/_iterator.py", "            del self._render_data\n            self._closed = True", "            del self._render_data")
m("C08-seek-end", "C08", "render/_iterator.py", "else frame_count + offset - 1", "else frame_count + offset")
m("C08-seek-range", "C08", "render/_iterator.py", "            if not 0 <= frame < frame_count:", "            if not 0 <= frame <= frame_count:")
m("C10-error-no-close", "C10", "render/_iterator.py", "        except Exception:\n            self.close()\n            raise", "        except Exception:\n            raise")
m("C10-ownership-ignored", "C10", "render/_iterator.py", "        new._finalize_data = finalize", "        new._finalize_data = True")
m("C08-size-no-psize", "C08", "render/_iterator.py", "        self._renderable_data.size = render_size\n        self._padded_size = self._padding.get_padded_size(render_size)", "        self._renderable_data.size = render_size")
m("C08-revert-padding-fix", "C08", "render/_iterator.py", "self._padded_size = self._padding.get_padded_size(self._renderable_data.size)", "self._padded_size = padding.get_padded_size(self._renderable_data.size)")
# ---- _animate_
m("C06-up-one-too-many", "C06", "renderable/_renderable.py", 'f"\\r{cursor_up(height + pad_bottom - 1)}{cursor_forward(pad_left)}"', 'f"\\r{cursor_up(height + pad_bottom)}{cursor_forward(pad_left)}"')
m("C06-down-one-too-many", "C06", "renderable/_renderable.py", "write(cursor_down(height + pad_bottom - 1))", "write(cursor_down(height + pad_bottom))")
m("C06-next-line-no-forward", "C06", "renderable/_renderable.py", 'cursor_to_next_render_line = f"\\n{cursor_forward(pad_left)}"', 'cursor_to_next_render_line = "\\n"')
m("C06-no-cr", "C06", "renderable/_renderable.py", 'f"\\r{cursor_up(height - 1)}{cursor_forward(pad_left)}"', 'f"{cursor_up(height - 1)}{cursor_forward(pad_left)}"')
m("C07-animate-ki-propagates", "C07", "renderable/_renderable.py", "        except KeyboardInterrupt:\n            pass\n        finally:\n            render_iter.close()", "        finally:\n            render_iter.close()")
m("C10-animate-finalize-true", "C10", "renderable/_renderable.py", "            False if loops == 1 else cache,\n            finalize=False,", "            False if loops == 1 else cache,\n            finalize=True,")
# ---- Renderable.draw
m("C07-revert-draw-ki-fix", "C07", "renderable/_renderable.py", "        except KeyboardInterrupt:\n            # Animations are documented to end without raising `KeyboardInterrupt`\n            if not animation:\n                raise\n        finally:", "        finally:")
m("C07-hide-before-try", "C07", "renderable/_renderable.py", "        try:\n            if hide_cursor:\n                output.write(HIDE_CURSOR)\n            if not_echo_input:", "        if hide_cursor:\n            output.write(HIDE_CURSOR)\n        try:\n            if not_echo_input:")
m("C13-draw-no-restore", "C13", "renderable/_renderable.py", "            if not_echo_input:\n                termios.tcsetattr(output_fd, termios.TCSANOW, old_attr)\n            render_data.finalize()", "            render_data.finalize()")
m("C10-draw-no-finalize", "C10", "renderable/_renderable.py", "                termios.tcsetattr(output_fd, termios.TCSANOW, old_attr)\n            render_data.finalize()", "                termios.tcsetattr(output_fd, termios.TCSANOW, old_attr)")
m("C07-still-ki-swallowed", "C07", "renderable/_renderable.py", "                    self._handle_interrupted_draw_(\n                        render_data, real_render_args, output\n                    )\n                    raise", "                    self._handle_interrupted_draw_(\n                        render_data, real_render_args, output\n                    )")
m("C06-draw-no-newline", "C06", "renderable/_renderable.py", '        finally:\n            output.write("\\n")\n            if hide_cursor:', "        finally:\n            if hide_cursor:")
m("C06-draw-check-size-ignored", "C06", "renderable/_renderable.py", "            check_size=animation or check_size,", "            check_size=check_size,")
m("C07-show-cursor-conditional", "C07", "renderable/_renderable.py", "            if hide_cursor:\n                output.write(SHOW_CURSOR)", "            if hide_cursor and not animation:\n                output.write(SHOW_CURSOR)")
# ---- _init_render_ / finalize
m("C10-finalize-else", "C10", "renderable/_types.py", "            try:\n                self.render_cls._finalize_render_data_(self)\n            finally:\n                self.finalized = True", "            self.render_cls._finalize_render_data_(self)\n            self.finalized = True")
m("C10-init-render-finalize-inverted", "C10", "renderable/_renderable.py", "        finally:\n            if finalize:\n                render_data.finalize()", "        finally:\n            if not finalize:\n                render_data.finalize()")
m("C06-height-ge", "C06", "renderable/_renderable.py", "                if not allow_scroll and height > terminal_height:", "                if not allow_scroll and height >= terminal_height:")
m("C06-width-unchecked", "C06", "renderable/_renderable.py", "                if width > terminal_width:", "                if width > terminal_width + 1:")
# ---- Padding.pad placement
m("C05-pad-bottom-short", "C05", "padding.py", 'bottom_padding = f"\\n{fill * width}" * bottom if bottom else ""', 'bottom_padding = f"\\n{fill * (width - 1)}" * bottom if bottom else ""')
m("C05-pad-replace-swapped", "C05", "padding.py", 'render.replace("\\n", f"{right_padding}\\n{left_padding}")', 'render.replace("\\n", f"{left_padding}\\n{right_padding}")')
m("C05-pad-top-uses-left", "C05", "padding.py", 'top_padding = f"{fill * width}\\n" * top if top else ""', 'top_padding = f"{fill * width}\\n" * left if top else ""')
m("C05-pad-empty-fill-writes", "C05", "padding.py", "            left_padding = cursor_forward(left)\n", "            left_padding = ' ' * left\n")
m("C05-pad-vertical-only-skips-right", "C05", "padding.py", "        horizontal = left or right", "        horizontal = left")
# ---- C01 block
m("C01-block-trailing-nl", "C01", "image/block.py", "            if row_no < height:  # last line not yet rendered", "            if row_no <= height:  # last line not yet rendered")
m("C01-block-run-short", "C01", "image/block.py", "                    buf_write(SGR_DEFAULT)\n                    buf_write(blank * n)\n                elif a_cluster1 == 0:", "                    buf_write(SGR_DEFAULT)\n                    buf_write(blank * (n - 1))\n                elif a_cluster1 == 0:")
m("C01-block-no-final-reset", "C01", "image/block.py", "        buf_write(SGR_DEFAULT)  # Reset color after last line\n", "")
m("C01-block-n-not-reset", "C01", "image/block.py", "                        a_cluster2 = a2\n                    n = 0\n", "                        a_cluster2 = a2\n")
m("C01-block-kitty-r-overflow", "C01", "image/block.py", "                    r += r < 255 or -1", "                    r += 1")
m("C01-sgr-template-broken", "C01", "_ctlseqs.py", 'SGR_FG_DIRECT = SGR % f"38;2;{Pm(3)}"', 'SGR_FG_DIRECT = SGR % f"38;2;{Pm(3)}" + CSI')
m("C01-sgr-template-4params", "C01", "_ctlseqs.py", 'SGR_BG_DIRECT = SGR % f"48;2;{Pm(3)}"', 'SGR_BG_DIRECT = SGR % f"48;2;{Pm(2)}"')
m("C01-block-equiv-dead-store", "C01", "image/block.py", "            row_no += 2\n            n = 0\n", "            row_no += 2\n            n = 1\n            n = 0\n", expect="held")
# ---- C02 block pixels
m("C02-lower-from-upper", "C02", "image/block.py", "                    cluster1 = px1\n                    cluster2 = px2", "                    cluster1 = px1\n                    cluster2 = px1")
m("C02-kitty-adjusts-fg", "C02", "image/block.py", "                    buf_write(SGR_FG_DIRECT % cluster1)\n                    buf_write(upper_pixel * n)\n\n        buffer", "                    buf_write(SGR_FG_DIRECT % (r, g, b))\n                    buf_write(upper_pixel * n)\n\n        buffer")
m("C02-alpha-transition-dropped", "C02", "image/block.py", "                        or 0 == a_cluster1 != a1\n", "")
m("C02-up-transparent-uses-upper-glyph", "C02", "image/block.py", "                    buf_write(SGR_FG_DIRECT % cluster2)\n                    buf_write(lower_pixel * n)", "                    buf_write(SGR_FG_DIRECT % cluster2)\n                    buf_write(upper_pixel * n)")
m("C02-second-row-offset", "C02", "image/block.py", "zip(rgb[x : x + width], rgb[x + width : x + width * 2]),", "zip(rgb[x : x + width], rgb[x + width + 1 : x + width * 2 + 1]),")
m("C02-px2-ignored", "C02", "image/block.py", "                    or px2 != cluster2\n", "")
m("C02-glyph-constants-swapped", "C02", "image/block.py", 'LOWER_PIXEL = "\\u2584"', 'LOWER_PIXEL = "\\u2580"')
# ---- kitty chunking
m("C03-chunk-4095", "C03", "image/kitty.py", "def get_chunks(self, size: int = 4096)", "def get_chunks(self, size: int = 4095)")
m("C03-m-flag-from-chunk", "C03", "image/kitty.py", 'm={bool(next_chunk):d}', 'm={bool(chunk):d}')
m("C03-last-m-1", "C03", "image/kitty.py", 'yield KITTY_TRANSMISSION % ("m=0", chunk)', 'yield KITTY_TRANSMISSION % ("m=1", chunk)')
m("C03-drops-final-chunk", "C03", "image/kitty.py", "            if chunk:  # false if there was never a next chunk\n                yield KITTY_TRANSMISSION % (\"m=0\", chunk)", "            pass")
m("C03-control-in-every-chunk", "C03", "image/kitty.py", 'yield KITTY_TRANSMISSION % ("m=1", chunk)', 'yield KITTY_TRANSMISSION % (f"{self.get_control_data()},m=1", chunk)')
m("C03-apc-unterminated", "C01", "_ctlseqs.py", 'KITTY_TRANSMISSION = f"{KITTY_START}{Pt};{Pt}{ST}"', 'KITTY_TRANSMISSION = f"{KITTY_START}{Pt};{Pt}"')
# ---- kitty _render_image
m("C03-cell-height-by-width", "C03", "image/kitty.py", "            cell_height = height // r_height", "            cell_height = height // r_width")
m("C03-lines-v-is-height", "C03", "image/kitty.py", "            vars(control_data).update(v=cell_height, r=1)", "            vars(control_data).update(v=height, r=1)")
m("C01-kitty-fill-erase-height", "C01", "image/kitty.py", 'fill = ("" if mix else ERASE_CHARS % r_width) + (CURSOR_FORWARD % r_width)', 'fill = ("" if mix else ERASE_CHARS % r_height) + (CURSOR_FORWARD % r_width)')
m("C01-kitty-fill-forward-short", "C01", "image/kitty.py", 'fill = ("" if mix else ERASE_CHARS % r_width) + (CURSOR_FORWARD % r_width)', 'fill = ("" if mix else ERASE_CHARS % r_width) + (CURSOR_FORWARD % (r_width - 1))')
m("C01-kitty-whole-extra-line", "C01", "image/kitty.py", "                fill_newline * (r_height - 1),\n                fill,", "                fill_newline * r_height,\n                fill,")
m("C01-kitty-lines-missing-last-fill", "C01", "image/kitty.py", "                buffer.write(fill)\n\n                return buffer.getvalue()", "                return buffer.getvalue()")
m("C03-whole-r-one", "C03", "image/kitty.py", "        vars(control_data).update(v=height, r=r_height)", "        vars(control_data).update(v=height, r=1)")
m("C03-bpl-no-format", "C03", "image/kitty.py", "            bytes_per_line = width * cell_height * (format // 8)", "            bytes_per_line = width * cell_height * 4")
m("C03-c-is-pixel-width", "C03", "image/kitty.py", "control_data = ControlData(f=format, s=width, c=r_width, z=z_index)", "control_data = ControlData(f=format, s=width, c=width, z=z_index)")
# ---- iterm2 _render_image
m("C03-iterm2-no-truncate", "C03", "image/iterm2.py", "                    compressed_image.truncate()\n", "")
m("C03-iterm2-no-seek0", "C03", "image/iterm2.py", "                for line in range(1, r_height + 1):\n                    compressed_image.seek(0)\n", "                for line in range(1, r_height + 1):\n")
m("C01-iterm2-trailing-nl", "C01", "image/iterm2.py", '                    line < r_height and buffer.write("\\n")', '                    line <= r_height and buffer.write("\\n")')
m("C01-iterm2-cursor-up-too-far", "C01", "image/iterm2.py", 'cursor_up = CURSOR_UP % (r_height - 1) if r_height > 1 else ""', 'cursor_up = CURSOR_UP % r_height if r_height > 1 else ""')
m("C01-iterm2-konsole-no-forward", "C01", "image/iterm2.py", "                    is_on_konsole and buffer.write(cursor_right)\n", "")
m("C03-iterm2-konsole-flag-inverted", "C03", "image/iterm2.py", "                    f\"{';doNotMoveCursor=1' * is_on_konsole}:\"\n                )\n            )\n            compressed_image.seek(0)\n            return \"\".join(\n                (\n                    (\n                        \"\"\n                        if is_on_konsole\n                        else f\"{erase}{cursor_right}\\n\" * (r_height - 1)\n                    ),\n                    erase,\n                    \"\" if is_on_konsole else cursor_up,\n                    ITERM2_START,\n                    control_data,\n                    standard_b64encode(compressed_image.read()).decode(),\n                    ST,\n                    f\"{cursor_right}\\n\" * (r_height - 1) if is_on_konsole else \"\",\n                    cursor_right * is_on_konsole,\n                )\n            )\n\n\n_stdout_write", "                    f\"{';doNotMoveCursor=1' * (not is_on_konsole)}:\"\n                )\n            )\n            compressed_image.seek(0)\n            return \"\".join(\n                (\n                    (\n                        \"\"\n                        if is_on_konsole\n                        else f\"{erase}{cursor_right}\\n\" * (r_height - 1)\n                    ),\n                    erase,\n                    \"\" if is_on_konsole else cursor_up,\n                    ITERM2_START,\n                    control_data,\n                    standard_b64encode(compressed_image.read()).decode(),\n                    ST,\n                    f\"{cursor_right}\\n\" * (r_height - 1) if is_on_konsole else \"\",\n                    cursor_right * is_on_konsole,\n                )\n            )\n\n\n_stdout_write")
m("C11-iterm2-lines-stream-leak", "C11", "image/iterm2.py", "            with io.StringIO() as buffer, raw_image, compressed_image:", "            with io.StringIO() as buffer, raw_image:")
m("C03-iterm2-size-before-seek-end", "C03", "image/iterm2.py", "        with compressed_image:\n            compressed_image.seek(0, 2)\n            control_data", "        with compressed_image:\n            compressed_image.seek(0)\n            control_data")
m("C01-iterm2-whole-height-minus-1", "C01", "image/iterm2.py", "                    f\";height={r_height};preserveAspectRatio=0;inline=1\"\n                    f\"{';doNotMoveCursor=1' * is_on_konsole}:\"\n                )\n            )\n            compressed_image.seek(0)\n            return \"\".join(\n                (\n                    (\n                        \"\"\n                        if is_on_konsole\n                        else f\"{erase}{cursor_right}\\n\" * (r_height - 1)\n                    ),\n                    erase,\n                    \"\" if is_on_konsole else cursor_up,\n                    ITERM2_START,\n                    control_data,\n                    standard_b64encode(compressed_image.read()).decode(),\n                    ST,\n                    f\"{cursor_right}\\n\" * (r_height - 1) if is_on_konsole else \"\",\n                    cursor_right * is_on_konsole,\n                )\n            )\n\n\n_stdout", "                    f\";height={r_height - 1};preserveAspectRatio=0;inline=1\"\n                    f\"{';doNotMoveCursor=1' * is_on_konsole}:\"\n                )\n            )\n            compressed_image.seek(0)\n            return \"\".join(\n                (\n                    (\n                        \"\"\n                        if is_on_konsole\n                        else f\"{erase}{cursor_right}\\n\" * (r_height - 1)\n                    ),\n                    erase,\n                    \"\" if is_on_konsole else cursor_up,\n                    ITERM2_START,\n                    control_data,\n                    standard_b64encode(compressed_image.read()).decode(),\n                    ST,\n                    f\"{cursor_right}\\n\" * (r_height - 1) if is_on_konsole else \"\",\n                    cursor_right * is_on_konsole,\n                )\n            )\n\n\n_stdout")
# ---- old API _format_render
m("C05-revert-format-render-fix", "C05", "image/common.py", "top = f\"{' ' * max(width, cols)}\\n\" * top", "top = f\"{' ' * width}\\n\" * top")
m("C05-format-render-center-right", "C05", "image/common.py", "                right = \" \" * (width - cols - len(left))", "                right = \" \" * ((width - cols) // 2)")
m("C05-format-render-bottom-align", "C05", "image/common.py", "            elif v_align == \"_\":  # bottom\n                top = height - lines\n                bottom = 0", "            elif v_align == \"_\":  # bottom\n                top = height - lines - 1\n                bottom = 1")
# ---- _get_render_data
m("C02-blend-skipped-for-zero-threshold", "C02", "image/common.py", "                if round_alpha:\n                    bg = Image.new(", "                if round_alpha and alpha:\n                    bg = Image.new(")
m("C02-threshold-le", "C02", "image/common.py", "a = [0 if val < alpha else 255 for val in a]", "a = [0 if val <= alpha else 255 for val in a]")
m("C02-composite-then-convert-swapped", "C02", "image/common.py", "                bg.alpha_composite(img)\n                if frame_img is not img:\n                    self._close_image(img)\n                img = bg.convert(\"RGB\")", "                if frame_img is not img:\n                    self._close_image(img)\n                img = bg.convert(\"RGB\")")
m("C02-resize-when-equal", "C02", "image/common.py", "            if img.size != size:\n                prev_img = img", "            if True:\n                prev_img = img")
m("C11-prev-img-close-inverted", "C11", "image/common.py", "                finally:\n                    if frame_img is not prev_img:\n                        self._close_image(prev_img)\n\n            if img.size != size:", "                finally:\n                    if frame_img is prev_img:\n                        self._close_image(prev_img)\n\n            if img.size != size:")
m("C11-close-image-closes-source", "C11", "image/common.py", "        if img is not self._source:\n            img.close()", "        img.close()")
m("C02-opaque-modes-missing-L", "C02", "image/common.py", 'if alpha is None or img.mode in {"1", "L", "RGB", "HSV", "CMYK"}:\n            convert_resize_img("RGB")', 'if alpha is None or img.mode in {"1", "RGB", "HSV", "CMYK"}:\n            convert_resize_img("RGB")')
# ---- format spec interpretation
m("C19-default-height", "C19", "image/common.py", "                int(height) if height else -2,", "                int(height) if height else -1,")
m("C19-zero-height-as-default", "C19", "image/common.py", "                int(height) if height else -2,", "                int(height or 0) or -2,")
m("C19-bare-hash-keeps-default-alpha", "C19", "image/common.py", "                threshold_or_bg\n                and (", "                (threshold_or_bg or _ALPHA_THRESHOLD)\n                and (")
m("C19-width-height-swapped", "C19", "image/common.py", "                h_align,\n                int(width) if width else 0,\n                v_align,\n                int(height) if height else -2,", "                h_align,\n                int(height) if height else 0,\n                v_align,\n                int(width) if width else -2,")
