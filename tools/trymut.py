#!/usr/bin/env python3
"""Engine self-test helper: apply a textual mutation to a scratch copy of /repo/src and run one check on it.

usage: tools/trymut.py Cxx relpath 'old' 'new' [--only unit]     (relpath relative to src/term_image)
The scratch copy lives under /tmp and is removed afterwards.  Exit code = the check's exit code.
"""
import os, shutil, subprocess, sys, tempfile
prop, rel, old, new = sys.argv[1:5]
extra = sys.argv[5:]
d = tempfile.mkdtemp(prefix="verif_mut_")
try:
    shutil.copytree("/repo/src", d + "/src")
    p = f"{d}/src/term_image/{rel}"
    s = open(p).read()
    if s.count(old) != 1:
        print(f"mutation site matches {s.count(old)} times"); sys.exit(9)
    open(p, "w").write(s.replace(old, new))
    env = {**os.environ, "VERIF_REPO": d, "VERIF_SCRATCH": d + "/out"}
    r = subprocess.run([os.path.join(os.path.dirname(__file__), "..", "check"), prop, *extra], env=env)
    sys.exit(r.returncode)
finally:
    shutil.rmtree(d, ignore_errors=True)
