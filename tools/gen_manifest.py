#!/usr/bin/env python3
"""Regenerates MANIFEST.json from the table below (kept in one place so it stays valid)."""
import json, os
HERE = os.path.dirname(os.path.dirname(os.path.abspath(__file__)))
CLAIMED = json.load(open(os.path.join(HERE, "tools", "claims.json")))
props = [json.loads(l) for l in open(os.path.join(HERE, "properties.jsonl"))]
checks, na = [], []
for p in props:
    pid = p["id"]
    c = CLAIMED.get(pid)
    if c and c.get("claimed"):
        checks.append({
            "property_id": pid,
            "quick_cmd": f"./check {pid} --tier quick",
            "thorough_cmd": f"./check {pid} --tier thorough",
            "evidence_file": f"evidence/{pid}.json",
            "replay_cmd_template": "cat {path}",
            "engine": "pyvc",
            "level_claimed": {"category": "proof", "text": c["text"], "design_ref": c.get("design_ref", "DESIGN.md section 5")},
            "level_note": c["note"],
            "technique": c.get("technique", "contract-based deductive verification: VCs generated from the real function ASTs against sidecar contracts, discharged by z3 (cvc5 on unknowns)"),
        })
    else:
        na.append({"property_id": pid, "reason": (c or {}).get("reason", "not reached yet by the contract framework (see DESIGN.md section 9)")})
m = {
    "version": 1,
    "setup_cmd": "true",
    "hooks": {"guard": "TERM_IMAGE_VERIF", "enable": "no hooks: the verifier reads /repo's source text and runs the real modules unmodified", 
              "baseline_off_cmd": "cd /repo && /venv/bin/python -m pytest -ra -q -p no:cacheprovider --timeout=900 --continue-on-collection-errors",
              "source_commits": [], "add_only": True},
    "engines": [{"name": "pyvc", "path": "pyvc/", "serves_properties": [c["property_id"] for c in checks],
                 "kind_free_text": "self-written VC generator: symbolic execution of the real Python function ASTs (re-read from /repo on every run) against sidecar contracts in contracts/, spec functions in spec/, obligations discharged by z3 5.1 in-process with /usr/bin/cvc5 as second solver; replays under /venv/bin/python"}],
    "checks": checks,
    "not_applicable": na,
    "notes": "exit codes: 0 held, 1 violation (VIOLATION line), 2 undecided (solver unknown / code left the supported subset), 3 checker error. See DESIGN.md.",
}
json.dump(m, open(os.path.join(HERE, "MANIFEST.json"), "w"), indent=1)
print("claimed:", [c["property_id"] for c in checks])
