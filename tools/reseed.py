#!/usr/bin/env python3
"""Re-run checks against stored seeded changes.  usage: tools/reseed.py [-u] <seeded-dir-substring> [prop ...]
Applies seeded/<dir>/patch.diff to /repo (git apply), runs ./check for the recorded property (or the given ones), undoes it.
With -u the outcome is stored in meta.json under "latest"."""
import glob, json, os, shutil, subprocess, sys
HERE = os.path.dirname(os.path.dirname(os.path.abspath(__file__)))
args = sys.argv[1:]
upd = args[:1] == ["-u"]
if upd:
    args = args[1:]
pat, *props = args
sh = lambda cmd: subprocess.run(cmd, shell=True, capture_output=True, text=True)
for d in sorted(glob.glob(f"{HERE}/seeded/*{pat}*")):
    meta = json.load(open(d + "/meta.json"))
    ps = props or [meta["property"]] + [p for p in meta.get("also_run", [])]
    a = sh(f"git -C /repo apply {d}/patch.diff")
    if a.returncode:
        print(os.path.basename(d), "DOES NOT APPLY", a.stderr[:200]); continue
    res = {}
    try:
        for p in ps:
            r = sh(f"cd {HERE} && VERIF_SCRATCH=/tmp/seeded_out ./check {p}")
            lines = [l for l in r.stdout.splitlines() if l.startswith(("VIOLATION", "UNDECIDED", "CHECKER"))]
            res[p] = {"exit": r.returncode, "first": (lines[0] if lines else "")[:260]}
    finally:
        sh("git -C /repo checkout -- .")
        shutil.rmtree("/tmp/seeded_out", ignore_errors=True)
    print(os.path.basename(d), {p: v["exit"] for p, v in res.items()}, "|", next((v["first"] for v in res.values() if v["exit"] == 1), "")[:170])
    if upd:
        meta["latest"] = res
        meta["detected_by"] = sorted(set(meta.get("detected_by", [])) | {p for p, v in res.items() if v["exit"] == 1})
        json.dump(meta, open(d + "/meta.json", "w"), indent=1)
