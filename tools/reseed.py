#!/usr/bin/env python3
"""Re-run checks against stored seeded changes.  usage: tools/reseed.py [-u] [-j N] <seeded-dir-substring> [prop ...]
Each seeded/<dir>/patch.diff is applied to its own scratch copy of /repo (src + tests, under /tmp, removed afterwards) and
./check runs with VERIF_REPO pointing at the copy, for the recorded property (or the given ones).
With -u the outcome is stored in meta.json under "latest"."""
import concurrent.futures as cf, glob, json, os, shutil, subprocess, sys, tempfile
HERE = os.path.dirname(os.path.dirname(os.path.abspath(__file__)))
args = sys.argv[1:]
upd = args[:1] == ["-u"]
if upd:
    args = args[1:]
jobs = 3
if args[:1] == ["-j"]:
    jobs = int(args[1]); args = args[2:]
pat, *props = args
sh = lambda cmd, **kw: subprocess.run(cmd, shell=True, capture_output=True, text=True, **kw)


def run(d):
    meta = json.load(open(d + "/meta.json"))
    ps = props or sorted(set([meta["property"]] + list(meta.get("also_run", [])) + list(meta.get("detected_by", []))))
    t = tempfile.mkdtemp(prefix="verif_seed_")
    try:
        shutil.copytree("/repo/src", t + "/src")
        shutil.copytree("/repo/tests", t + "/tests")
        a = sh(f"cd {t} && patch -p1 -s < {d}/patch.diff")
        if a.returncode:
            return d, None, "DOES NOT APPLY " + (a.stdout + a.stderr)[:200]
        res = {}
        for p in ps:
            env = {**os.environ, "VERIF_REPO": t, "VERIF_SCRATCH": t + "/out", "VERIF_JOBS": "6"}
            r = sh(f"cd {HERE} && ./check {p}", env=env)
            lines = [l for l in r.stdout.splitlines() if l.startswith(("VIOLATION", "UNDECIDED", "CHECKER"))]
            res[p] = {"exit": r.returncode, "first": (lines[0] if lines else "").replace(t, "<scratch>")[:300]}
        return d, res, ""
    finally:
        shutil.rmtree(t, ignore_errors=True)


with cf.ThreadPoolExecutor(jobs) as ex:
    for d, res, err in ex.map(run, sorted(glob.glob(f"{HERE}/seeded/*{pat}*"))):
        if res is None:
            print(os.path.basename(d), err); continue
        print(os.path.basename(d), {p: v["exit"] for p, v in res.items()}, "|", next((v["first"] for v in res.values() if v["exit"] == 1), next((v["first"] for v in res.values() if v["exit"] > 1), ""))[:260], flush=True)
        if upd:
            meta = json.load(open(d + "/meta.json"))
            meta["latest"] = res
            meta["also_run"] = sorted(set(meta.get("also_run", [])) | set(res))
            meta["detected_by"] = sorted(p for p, v in res.items() if v["exit"] == 1)
            json.dump(meta, open(d + "/meta.json", "w"), indent=1)
