#!/usr/bin/env python3
"""Runs the mutation self-test: every mutant in selftest/mutants.py on its own scratch copy of /repo/src (under /tmp,
removed afterwards).  usage: tools/selftest.py [-j N] [id-substring ...]"""
import concurrent.futures as cf, os, shutil, subprocess, sys, tempfile, json
HERE = os.path.dirname(os.path.dirname(os.path.abspath(__file__)))
sys.path.insert(0, HERE)
from selftest.mutants import M


def run(mu):
    d = tempfile.mkdtemp(prefix="verif_mut_")
    try:
        shutil.copytree("/repo/src", d + "/src")
        p = f"{d}/src/term_image/{mu['file']}"
        s = open(p).read()
        if s.count(mu["old"]) != 1:
            return mu, "SITE-NOT-FOUND", ""
        s = s.replace(mu["old"], mu["new"])
        for old2, new2 in mu.get("more", ()):
            if s.count(old2) != 1:
                return mu, "SITE-NOT-FOUND", ""
            s = s.replace(old2, new2)
        open(p, "w").write(s)
        env = {**os.environ, "VERIF_REPO": d, "VERIF_SCRATCH": d + "/out", "VERIF_JOBS": "4", "VERIF_TIER": "quick"}
        r = subprocess.run([os.path.join(HERE, "check"), mu["prop"], "--tier", "quick"], env=env, capture_output=True, text=True)
        lines = [l for l in r.stdout.splitlines() if l.startswith(("VIOLATION", "UNDECIDED", "CHECKER", "HELD"))]
        verdict = {0: "held", 1: "violation", 2: "undecided", 3: "checker-error"}.get(r.returncode, str(r.returncode))
        return mu, verdict, (lines[0] if lines else "")[:200]
    finally:
        shutil.rmtree(d, ignore_errors=True)


if __name__ == "__main__":
    args = sys.argv[1:]
    jobs = 6
    if args[:1] == ["-j"]:
        jobs = int(args[1]); args = args[2:]
    sel = [m for m in M if not args or any(a in m["id"] for a in args)]
    bad = 0
    with cf.ThreadPoolExecutor(jobs) as ex:
        for mu, verdict, line in ex.map(run, sel):
            ok = verdict == mu["expect"]
            bad += not ok
            print(("ok  " if ok else "MISS"), mu["id"], "->", verdict, "" if ok else f"(expected {mu['expect']})", line if not ok or verdict == "violation" else "")
    print(f"{len(sel) - bad}/{len(sel)} as expected")
    sys.exit(1 if bad else 0)
