#!/usr/bin/env python3
"""Evaluate a seeded change produced by a sub-agent.
usage: tools/seeded.py <worktree> <N> <prop> [<other props to run too>...]
 1. confirms in the worktree: diff applies to the clean tree, test-suite numbers equal the baseline with the change,
    demo fails with the change and passes without it;
 2. applies the diff to /repo, runs ./check <prop> (and the other props), undoes it (git -C /repo checkout -- .);
 3. stores patch, demo, notes and meta.json under /verif/seeded/<prop>-<name>/.
"""
import json, os, re, shutil, subprocess, sys
wt, n, prop, *others = sys.argv[1:]
HERE = os.path.dirname(os.path.dirname(os.path.abspath(__file__)))
sh = lambda cmd, **kw: subprocess.run(cmd, shell=True, capture_output=True, text=True, **kw)
diff, demo, notes = f"{wt}/mutation_{n}.diff", f"{wt}/demo_{n}.py", f"{wt}/notes_{n}.txt"
env = f"cd {wt} && PYTHONPATH={wt}/src"
meta = {"property": prop, "source": f"independent sub-agent, worktree {wt}, change {n}"}
sh(f"cd {wt} && git checkout -- src")
r = sh(f"{env} /venv/bin/python demo_{n}.py"); meta["demo_on_clean_tree_exit"] = r.returncode
a = sh(f"cd {wt} && git apply mutation_{n}.diff"); meta["applies_to_clean_tree"] = a.returncode == 0
r = sh(f"{env} /venv/bin/python demo_{n}.py"); meta["demo_with_change_exit"] = r.returncode; meta["demo_output_tail"] = (r.stdout + r.stderr)[-400:]
t = sh(f"{env} /venv/bin/python -m pytest -q -p no:cacheprovider --timeout=900 --continue-on-collection-errors 2>&1 | tail -1"); meta["test_suite_with_change"] = t.stdout.strip()
sh(f"cd {wt} && git checkout -- src")
meta["confirmed"] = bool(meta["applies_to_clean_tree"] and meta["demo_on_clean_tree_exit"] == 0 and meta["demo_with_change_exit"] != 0
                         and "1178 passed" in meta["test_suite_with_change"] and "4 failed" in meta["test_suite_with_change"])
# --- run the checks against /repo with the change applied
a = sh(f"git -C /repo apply {diff}")
meta["applies_to_repo_head"] = a.returncode == 0
results = {}
if a.returncode == 0:
    try:
        for p in [prop] + others:
            r = sh(f"cd {HERE} && VERIF_SCRATCH=/tmp/seeded_out ./check {p}")
            lines = [l for l in r.stdout.splitlines() if l.startswith(("VIOLATION", "UNDECIDED", "CHECKER", "HELD", "KNOWN", "exit="))]
            results[p] = {"exit": r.returncode, "lines": [l[:300] for l in lines[:4]]}
    finally:
        sh("git -C /repo checkout -- .")
        shutil.rmtree("/tmp/seeded_out", ignore_errors=True)
meta["checks"] = results
meta["detected_by"] = [p for p, v in results.items() if v["exit"] == 1]
name = re.sub(r"[^A-Za-z0-9]+", "-", os.path.basename(wt)) + f"-{n}"
out = f"{HERE}/seeded/{prop}-{name}"
os.makedirs(out, exist_ok=True)
shutil.copy(diff, out + "/patch.diff"); shutil.copy(demo, out + f"/demo.py")
if os.path.exists(notes):
    shutil.copy(notes, out + "/notes.txt")
    meta["needs"] = open(notes).read()[:1500]
meta["ran"] = f"tools/seeded.py {wt} {n} {prop} {' '.join(others)}".strip()
json.dump(meta, open(out + "/meta.json", "w"), indent=1)
print(json.dumps({k: meta[k] for k in ("confirmed", "applies_to_repo_head", "detected_by")}), {p: v["exit"] for p, v in results.items()})
for p, v in results.items():
    for l in v["lines"][:2]:
        print("   ", p, l[:220])
