#!/usr/bin/env python3
"""Evaluate a seeded change produced by a sub-agent.
usage: tools/seeded.py <worktree> <N> <prop> [<other props to run too>...]
 1. confirms in the worktree: diff applies to the clean tree, test-suite numbers equal the baseline with the change,
    demo fails with the change and passes without it;
 2. applies the diff to a scratch copy of /repo's working tree (src + tests, under /tmp, removed afterwards) and runs ./check <prop>
    (and the other props) with VERIF_REPO pointing at it;
 3. stores patch, demo, notes and meta.json under /verif/seeded/<prop>-<name>/.
"""
import json, os, re, shutil, subprocess, sys
wt, n, prop, *others = sys.argv[1:]
HERE = os.path.dirname(os.path.dirname(os.path.abspath(__file__)))
sh = lambda cmd, **kw: subprocess.run(cmd, shell=True, capture_output=True, text=True, **kw)
diff, demo, notes = f"{wt}/mutation_{n}.diff", f"{wt}/demo_{n}.py", f"{wt}/notes_{n}.txt"
env = f"cd {wt} && PYTHONPATH={wt}/src"
meta = {"property": prop, "source": f"independent sub-agent, worktree {wt}, change {n}"}
sh(f"cd {wt} && git checkout -- src")
r = sh(f"{env} /venv/bin/python demo_{n}.py"); meta["demo_on_clean_tree_exit"] = r.returncode
a = sh(f"cd {wt} && git apply mutation_{n}.diff"); meta["applies_to_clean_tree"] = a.returncode == 0
r = sh(f"{env} /venv/bin/python demo_{n}.py"); meta["demo_with_change_exit"] = r.returncode; meta["demo_output_tail"] = (r.stdout + r.stderr)[-400:]
t = sh(f"{env} /venv/bin/python -m pytest -q -p no:cacheprovider --timeout=900 --continue-on-collection-errors 2>&1 | tail -1"); meta["test_suite_with_change"] = t.stdout.strip()
sh(f"cd {wt} && git checkout -- src")
meta["confirmed"] = bool(meta["applies_to_clean_tree"] and meta["demo_on_clean_tree_exit"] == 0 and meta["demo_with_change_exit"] != 0
                         and "1178 passed" in meta["test_suite_with_change"] and "4 failed" in meta["test_suite_with_change"])
# --- run the checks against a scratch copy of /repo's working tree with the change applied (same as tools/reseed.py; /repo itself
#     stays untouched so that checks running at the same time are not disturbed)
import tempfile
t = tempfile.mkdtemp(prefix="verif_seed_")
results = {}
try:
    shutil.copytree("/repo/src", t + "/src")
    shutil.copytree("/repo/tests", t + "/tests")
    a = sh(f"cd {t} && patch -p1 -s < {diff}")
    meta["applies_to_repo_head"] = a.returncode == 0
    if a.returncode == 0:
        for p in [prop] + others:
            r = sh(f"cd {HERE} && ./check {p} --tier quick", env={**os.environ, "VERIF_REPO": t, "VERIF_SCRATCH": t + "/out", "VERIF_JOBS": "8"})
            lines = [l.replace(t, "<scratch>") for l in r.stdout.splitlines() if l.startswith(("VIOLATION", "UNDECIDED", "CHECKER", "HELD", "KNOWN", "exit="))]
            results[p] = {"exit": r.returncode, "lines": [l[:300] for l in lines[:4]], "first": next((l for l in lines if l.startswith(("VIOLATION", "UNDECIDED", "CHECKER"))), "")[:300]}
finally:
    shutil.rmtree(t, ignore_errors=True)
meta["checks"] = results
meta["detected_by"] = [p for p, v in results.items() if v["exit"] == 1]
meta["latest"] = {p: {"exit": v["exit"], "first": v["first"]} for p, v in results.items()}
meta["also_run"] = sorted(results)
name = re.sub(r"[^A-Za-z0-9]+", "-", os.path.basename(wt)) + f"-{n}"
out = f"{HERE}/seeded/{prop}-{name}"
os.makedirs(out, exist_ok=True)
shutil.copy(diff, out + "/patch.diff"); shutil.copy(demo, out + f"/demo.py")
if os.path.exists(notes):
    shutil.copy(notes, out + "/notes.txt")
    meta["needs"] = open(notes).read()[:1500]
meta["ran"] = f"tools/seeded.py {wt} {n} {prop} {' '.join(others)}".strip()
json.dump(meta, open(out + "/meta.json", "w"), indent=1)
print(json.dumps({k: meta[k] for k in ("confirmed", "applies_to_repo_head", "detected_by")}), {p: v["exit"] for p, v in results.items()})
for p, v in results.items():
    for l in v["lines"][:2]:
        print("   ", p, l[:220])
