#!/usr/bin/env python3
"""Regenerates the generated tables of DESIGN.md (between <!-- BEGIN:x --> / <!-- END:x --> markers) from evidence/*.json,
seeded/*/meta.json and selftest/mutants.py, so the numbers quoted there are the ones the machinery printed."""
import glob, json, os, re, sys
HERE = os.path.dirname(os.path.dirname(os.path.abspath(__file__)))
sys.path.insert(0, HERE)


def status_table():
    rows = ["| id | units | functions under contract | obligations (all discharged) | wall (quick, 16 cores) | not decided inside the property |", "|---|---|---|---|---|---|"]
    for f in sorted(glob.glob(f"{HERE}/evidence/C*.json")):
        e = json.load(open(f))
        c = e["coverage"]
        fns = sorted({x["function"].split(":")[-1] for x in c["functions_under_contract"]})
        nd = "; ".join(x[:110] for x in c["not_decided"]) or "—"
        rows.append(f"| {e['property_id']} | {len(c['units'])} | {len(fns)}: " + ", ".join(f"`{x}`" for x in fns[:14]) + (" …" if len(fns) > 14 else "")
                    + f" | {c['obligations']} / {c['discharged']} | {e['wall_s']:.0f} s ({e['tier']}) | {nd} |")
    return "\n".join(rows)


def seeded_table():
    rows = ["| seeded change | what it does (sub-agent's summary) | checks run → exit | first line reported |", "|---|---|---|---|"]
    for d in sorted(glob.glob(f"{HERE}/seeded/*")):
        m = json.load(open(d + "/meta.json"))
        notes = open(d + "/notes.txt").read() if os.path.exists(d + "/notes.txt") else ""
        title = next((l.strip() for l in notes.splitlines() if l.strip() and not set(l.strip()) <= set("-=")), "")[:150]
        lat = m.get("latest", {})
        exits = ", ".join(f"{p}→{ {0: 'held (missed)', 1: 'VIOLATION', 2: 'undecided', 3: 'checker error'}.get(v['exit'], v['exit']) }" for p, v in sorted(lat.items()))
        first = next((v["first"] for v in lat.values() if v["exit"] == 1), next((v["first"] for v in lat.values() if v["exit"] > 1), ""))
        first = re.sub(r"replay=\S*/replays/", "replay=…/", first)[:170]
        base = os.path.basename(d)
        import re as _re
        _m = _re.search(r"-wt(\d)-", base)
        label = (base.split(_m.group(0))[-1] + f" (round {_m.group(1)})") if _m else base.split("-wt-")[-1]
        rows.append(f"| {label} | {title} | {exits} | `{first}` |")
    return "\n".join(rows)


def mutant_table():
    from selftest.mutants import M
    by = {}
    for m in M:
        k = by.setdefault(m["prop"], {"violation": 0, "held": 0})
        k[m["expect"]] = k.get(m["expect"], 0) + 1
    rows = ["| property | mutants that must be reported | semantics-preserving edits that must stay quiet |", "|---|---|---|"]
    for p in sorted(by):
        rows.append(f"| {p} | {by[p].get('violation', 0)} | {by[p].get('held', 0)} |")
    rows.append(f"| total | {sum(v.get('violation', 0) for v in by.values())} | {sum(v.get('held', 0) for v in by.values())} |")
    return "\n".join(rows)


text = open(f"{HERE}/DESIGN.md").read()
for name, fn in (("status-table", status_table), ("seeded-table", seeded_table), ("mutant-table", mutant_table)):
    pat = re.compile(rf"(<!-- BEGIN:{name} -->\n).*?(<!-- END:{name} -->)", re.S)
    if pat.search(text):
        text = pat.sub(lambda mm: mm.group(1) + fn() + "\n" + mm.group(2), text)
open(f"{HERE}/DESIGN.md", "w").write(text)
print("tables regenerated")
