"""Runner: units -> obligations -> z3 / cvc5 -> verdicts, replays, evidence (DESIGN 2.1, 2.5, 2.6, 8)."""
import argparse
import ast
import hashlib
import importlib
import json
import multiprocessing as mp
import os
import re
import subprocess
import sys
import tempfile
import time
import traceback

import z3

from .values import Unsupported, EnumV, Namespace, ClassV
from .engine import Engine, State, Obligation, BUILTIN_EXC

VERIF = os.path.dirname(os.path.dirname(os.path.abspath(__file__)))
OUT = os.environ.get("VERIF_SCRATCH") or VERIF      # scratch runs (self-test mutants) never touch /verif/evidence
REPO = os.environ.get("VERIF_REPO", "/repo")
VENV_PY = os.environ.get("VERIF_VENV_PY", "/venv/bin/python")
Z3_TIMEOUT_MS = int(os.environ.get("VERIF_Z3_TIMEOUT_MS", "20000"))
CVC5_TIMEOUT_MS = int(os.environ.get("VERIF_CVC5_TIMEOUT_MS", "60000"))

UNITS = {}   # prop -> [(name, func, opts)]


def unit(prop, name, **opts):
    """register a proof unit for one property or a tuple of properties (obligations carry their own property id;
    `./check Cxx` discharges and reports exactly those tagged Cxx)"""
    props = (prop,) if isinstance(prop, str) else tuple(prop)

    def deco(f):
        for p in props:
            UNITS.setdefault(p, []).append((name, f, opts))
        return f
    return deco


# ------------------------------------------------------------------------------------------ context
class Ctx:
    _consts = None

    def __init__(self, repo=None):
        self.repo = repo or REPO
        self.src = self.repo + "/src/term_image"
        self.functions = []
        self._trees = {}
        self.assumptions = []
        self.not_decided = []
        self.bounded = []

    # constants of the running modules (dumped once per run by the parent, inherited by fork)
    @classmethod
    def load_consts(cls, repo):
        out = subprocess.run([VENV_PY, os.path.join(VERIF, "pyvc", "dump_consts.py"), repo], capture_output=True, text=True,
                             env={**os.environ, "PYTHONDONTWRITEBYTECODE": "1"})
        if out.returncode != 0:
            raise RuntimeError("constant dump failed:\n" + out.stderr[-2000:])
        cls._consts = json.loads(out.stdout)
        return cls._consts

    def decode(self, v):
        if isinstance(v, dict):
            if "__enum__" in v:
                return EnumV(v["__enum__"], v["name"], self.decode(v["value"]))
            if "__bytes__" in v:
                return v["__bytes__"].encode("latin1")
            if "__re__" in v:
                return ("re", v["__re__"], v["flags"], v["bytes"])
            if "__tuple__" in v:
                return tuple(self.decode(x) for x in v["__tuple__"])
            if "__list__" in v:
                return tuple(self.decode(x) for x in v["__list__"])
            if "__set__" in v:
                return frozenset(self.decode(x) for x in v["__set__"])
            if "__dict__" in v:
                return {self.decode(k): self.decode(x) for k, x in v["__dict__"]}
            if "__enumcls__" in v:
                return Namespace(v["__enumcls__"], {k: self.decode(m) for k, m in v["members"].items()})
        return v

    def const(self, module, name):
        m = Ctx._consts.get(module)
        if m is None or "__import_error__" in m:
            raise Unsupported(f"module {module} not importable: {m}")
        if name not in m:
            raise Unsupported(f"constant {module}.{name} missing")
        return self.decode(m[name])

    def ns(self, module, label=None):
        m = Ctx._consts.get(module)
        if m is None or "__import_error__" in m:
            raise Unsupported(f"module {module} not importable: {m}")
        return Namespace(label or module, {k: self.decode(v) for k, v in m.items()})

    def class_const(self, cls, name):
        c = Ctx._consts["__classes__"].get(cls, {})
        if name not in c:
            raise Unsupported(f"class constant {cls}.{name} missing")
        return self.decode(c[name])

    # source
    def tree(self, rel):
        if rel not in self._trees:
            path = os.path.join(self.src, rel)
            text = open(path).read()
            self._trees[rel] = (ast.parse(text), text)
        return self._trees[rel]

    def fn(self, rel, qualname):
        tree, text = self.tree(rel)
        node = tree
        for part in qualname.split("."):
            cands = [n for n in ast.walk(node) if isinstance(n, (ast.FunctionDef, ast.ClassDef, ast.AsyncFunctionDef)) and n.name == part and n is not node] \
                if not isinstance(node, ast.Module) and False else \
                [n for n in _children_defs(node) if n.name == part]
            if not cands:
                raise Unsupported(f"function {rel}:{qualname} not found")
            # property setter/getter with the same name: pick by suffix ":setter" handled by caller via index
            real = [c for c in cands if not any(getattr(d, "id", getattr(d, "attr", None)) == "overload" for d in getattr(c, "decorator_list", []))]
            node = (real or cands)[0]
        seg = ast.get_source_segment(text, node) or ""
        rec = {"function": f"term_image/{rel}:{qualname}", "lines": [node.lineno, node.end_lineno],
               "sha256": hashlib.sha256(seg.encode()).hexdigest()[:16]}
        if rec not in self.functions:
            self.functions.append(rec)
        self.check_decorators(node, f"{rel}:{qualname}")
        return node

    # decorators the units know how to treat (2.2): binding forms, typing markers, the tty decorators (pre-condition / transparent lock),
    # the caching decorators (their own contracts, C15), the repository's descriptor helpers.  Any other decorator may change what a
    # call of the function means (e.g. a cache returning one shared object), so the body alone no longer says what the function does
    KNOWN_DECORATORS = {"classmethod", "staticmethod", "property", "abstractmethod", "overload", "override", "no_type_check", "wraps",
                        "lock_tty", "unix_tty_only", "no_redecorate", "cached", "terminal_size_cached", "dataclass", "dataclass_transform",
                        "register", "_close_validated", "ClassInstanceMethod", "instancemethod", "setter", "getter", "deleter"}

    def check_decorators(self, node, where):
        for d in getattr(node, "decorator_list", []):
            t = d.func if isinstance(d, ast.Call) else d
            name = t.attr if isinstance(t, ast.Attribute) else getattr(t, "id", None)
            if name not in self.KNOWN_DECORATORS:
                raise Unsupported(f"decorator @{ast.unparse(d)} on {where} is not modelled (it may change what a call of the function means)")

    def fn_all(self, rel, qualname):
        """all definitions with that qualified name (property getter / setter pairs), in source order"""
        tree, text = self.tree(rel)
        nodes = [tree]
        for part in qualname.split("."):
            nodes = [c for n in nodes for c in _children_defs(n) if c.name == part]
        for node in nodes:
            seg = ast.get_source_segment(text, node) or ""
            rec = {"function": f"term_image/{rel}:{qualname}@{node.lineno}", "lines": [node.lineno, node.end_lineno],
                   "sha256": hashlib.sha256(seg.encode()).hexdigest()[:16]}
            if rec not in self.functions:
                self.functions.append(rec)
        return nodes

    def exc_parents(self):
        """exception hierarchy parsed from the repo's sources"""
        out = {}
        for rel in ("exceptions.py", "padding.py", "renderable/_exceptions.py", "render/_iterator.py", "image/common.py",
                    "renderable/_types.py", "utils.py"):
            try:
                tree, _ = self.tree(rel)
            except OSError:
                continue
            for n in ast.walk(tree):
                if isinstance(n, ast.ClassDef) and n.bases and (n.name.endswith("Error") or n.name.endswith("Warning")):
                    b = n.bases[0]
                    out[n.name] = b.id if isinstance(b, ast.Name) else b.attr if isinstance(b, ast.Attribute) else "Exception"
                    if len(n.bases) > 1:
                        b2 = n.bases[1]
                        out.setdefault("__second__", {})[n.name] = b2.id if isinstance(b2, ast.Name) else getattr(b2, "attr", None)
        second = out.pop("__second__", {})
        self._exc_second = second
        return out

    def engine(self, label, prop, **kw):
        eng = Engine(label=label, prop=prop, exc_parents=self.exc_parents(), **kw)
        self.__dict__.setdefault("engines", []).append(eng)
        # A-DIGITS: \d of a str pattern and int() accept every code point of category Nd (64 ranges of ten in the interpreter that runs
        # the library); the solver is given ASCII digits plus ONE other script as the representative of all non-ASCII digits
        # (no pattern, class or built-in used here tells two digit scripts apart) - the full union makes every string query ~10x slower
        eng.unicode_nd = ((Ctx._consts or {}).get("__unicode_nd__") or [[48, 57]])[:2]
        for k, v in getattr(self, "_exc_second", {}).items():
            eng.classes.setdefault(k, ())
            eng.classes[k] = tuple(eng.classes[k]) + (v,)
        return eng

    def assume(self, text):
        if text not in self.assumptions:
            self.assumptions.append(text)


def _children_defs(node):
    out = []
    for n in ast.iter_child_nodes(node):
        if isinstance(n, (ast.FunctionDef, ast.ClassDef, ast.AsyncFunctionDef)):
            out.append(n)
        elif isinstance(n, (ast.If, ast.Try, ast.With)):
            out += _children_defs(n)
    return out


def run_function(eng, fnode, st):
    """execute the body of a function node from state st; -> outcomes [(kind, value, state)]"""
    eng.number_loops(fnode)
    eng.rstack.append([])
    outs = eng.run(eng.body_of(fnode), st)
    extra = eng.rstack.pop()
    return outs + [("raise", e, s) for e, s in extra]


# ------------------------------------------------------------------------------------------ discharge
def model_to_dict(m):
    d = {}
    for decl in m.decls():
        try:
            if decl.arity() == 0:
                d[decl.name()] = str(m[decl])
            else:
                d[decl.name()] = str(m[decl])[:300]
        except Exception:
            pass
    return d


def discharge(ob, want_smt=False):
    s = z3.Solver()
    s.set("timeout", Z3_TIMEOUT_MS)
    goal = ob.goal
    if goal is True or goal is False:
        goal = z3.BoolVal(goal)
    s.add(*ob.pc)
    s.add(z3.Not(goal))
    t = time.time()
    try:
        r = s.check()
    except z3.Z3Exception as e:
        r = "unknown"
    dt = time.time() - t
    res = {"name": ob.name, "prop": ob.prop, "result": str(r), "time": round(dt, 4), "backend": "z3-" + z3.get_version_string(),
           "meta": {k: (v if isinstance(v, (int, str, bool, float, type(None))) else str(v)) for k, v in ob.meta.items()}}
    if str(r) == "sat":
        res["model"] = model_to_dict(s.model())
        res["goal"] = goal.sexpr()[:1500]
    if str(r) == "unknown":
        # second opinion
        smt = s.to_smt2()
        r2, dt2 = cvc5_check(smt)
        res["cvc5"] = r2
        res["time"] = round(dt + dt2, 4)
        if r2 in ("unsat", "sat"):
            res["result"] = r2
            res["backend"] = "cvc5-1.0.3 (after z3 unknown)"
        else:
            # both solvers ran out of time: once more with three times the budget (a loaded machine must not flip a verdict to undecided)
            s3 = z3.Solver()
            s3.set("timeout", 3 * Z3_TIMEOUT_MS)
            s3.add(*ob.pc)
            s3.add(z3.Not(goal))
            t3 = time.time()
            try:
                r3 = str(s3.check())
            except z3.Z3Exception:
                r3 = "unknown"
            res["time"] = round(res["time"] + time.time() - t3, 4)
            if r3 in ("unsat", "sat"):
                res["result"] = r3
                res["backend"] = "z3-" + z3.get_version_string() + " (second attempt, 3x budget)"
                if r3 == "sat":
                    res["model"] = model_to_dict(s3.model())
                    res["goal"] = goal.sexpr()[:1500]
    if want_smt:
        res["smt_head"] = goal.sexpr()[:600]
    return res


def second_opinion(ob):
    """thorough tier: the same query handed to cvc5 (sampled obligations)"""
    sv = z3.Solver()
    sv.add(*ob.pc)
    sv.add(z3.Not(ob.goal if not isinstance(ob.goal, bool) else z3.BoolVal(ob.goal)))
    try:
        r2, dt2 = cvc5_check(sv.to_smt2())
    except Exception:
        r2, dt2 = "unknown", 0.0
    return {"solver": "cvc5-1.0.3", "result": r2, "s": round(dt2, 3)}


def cvc5_check(smt):
    with tempfile.NamedTemporaryFile("w", suffix=".smt2", delete=False, dir=os.environ.get("VERIF_TMP", tempfile.gettempdir())) as f:
        f.write(smt)
        path = f.name
    t = time.time()
    try:
        out = subprocess.run(["/usr/bin/cvc5", f"--tlimit={CVC5_TIMEOUT_MS}", "--strings-exp", path], capture_output=True, text=True,
                             timeout=CVC5_TIMEOUT_MS / 1000 + 10)
        r = out.stdout.strip().splitlines()[0] if out.stdout.strip() else "unknown"
    except Exception:
        r = "unknown"
    finally:
        os.unlink(path)
    return (r if r in ("sat", "unsat") else "unknown"), time.time() - t


def canary(ob):
    """non-vacuity: the path condition of an exit obligation must be satisfiable"""
    s = z3.Solver()
    s.set("timeout", 5000)
    s.add(*ob.pc)
    return str(s.check())


def _run_unit(job):
    prop, idx, repo = job[:3]
    tier = job[3] if len(job) > 3 else "quick"
    name, func, opts = UNITS[prop][idx]
    t0 = time.time()
    ctx = Ctx(repo)
    out = {"unit": name, "prop": prop, "results": [], "status": "ok", "functions": [], "canaries": {"checked": 0, "vacuous": 0},
           "assumptions": [], "not_decided": [], "bounded": []}
    try:
        obs = func(ctx)
        obs = [ob for ob in list(obs or []) if (ob.prop or prop) == prop]
        for i, ob in enumerate(obs):
            if ob.meta.get("kind") == "cover":
                # reachability clause: the situation the neighbouring obligations talk about must be possible (else they are vacuous)
                c = canary(type(ob)(ob.name, list(ob.pc) + [ob.goal if not isinstance(ob.goal, bool) else z3.BoolVal(ob.goal)], True, ob.prop, ob.meta))
                out["canaries"]["checked"] += 1
                if c != "sat":
                    out["canaries"]["vacuous"] += 1
                    out["status"] = "undecided"
                    out["reason"] = f"cover clause not reachable ({c}): {ob.name}"
                continue
            r = discharge(ob, want_smt=(i % 37 == 0))
            r["unit"] = name
            if tier == "thorough" and i % 10 == 0 and i < 600 and r["result"] == "unsat" and r["backend"].startswith("z3"):
                r["second_opinion"] = second_opinion(ob)
            out["results"].append(r)
            if ob.meta.get("kind") in ("post", "exit", "raise", "yield") and r["result"] == "unsat":
                c = canary(ob)
                out["canaries"]["checked"] += 1
                if c == "unsat":
                    out["canaries"]["vacuous"] += 1
        trips = [t_ for e_ in getattr(ctx, "engines", []) for t_ in getattr(e_, "frame_trips", [])]
        if trips and not any(r["result"] == "sat" for r in out["results"]):
            # loop-carried state outside the loop specification and nothing failed: not a pass (engine.loop_frame_check)
            out["status"] = "undecided"
            out["reason"] = f"out of subset: {trips[0]}"
    except Unsupported as e:
        out["status"] = "undecided"
        out["reason"] = f"out of subset: {e}"
        out["trace"] = traceback.format_exc()[-1500:]
    except z3.Z3Exception as e:
        # an ill-sorted term (e.g. a float where the model of a callee expects an integer): the code does something the unit's value
        # model has no typing for - undecided, not a crash of the checker
        out["status"] = "undecided"
        out["reason"] = f"out of subset: ill-sorted expression ({str(e)[:80]})"
        out["trace"] = traceback.format_exc()[-1500:]
    except Exception as e:
        out["status"] = "error"
        out["reason"] = f"{type(e).__name__}: {e}"
        out["trace"] = traceback.format_exc()[-3000:]
    out["functions"] = ctx.functions
    out["assumptions"] = ctx.assumptions
    out["not_decided"] = ctx.not_decided
    out["bounded"] = ctx.bounded
    out["wall"] = round(time.time() - t0, 3)
    return out


# ------------------------------------------------------------------------------------------ findings
def load_findings():
    path = os.path.join(VERIF, "known_findings.txt")
    out = []
    if os.path.exists(path):
        for line in open(path):
            line = line.strip()
            if not line.startswith("finding:"):
                continue
            d = dict(re.findall(r"(\w+)=(\S+)", line))
            d["what"] = line.split("what=", 1)[1] if "what=" in line else line
            out.append(d)
    return out


def strip_idx(name):
    return re.sub(r"#\d+$", "", name)


def finding_for(res, findings):
    for f in findings:
        if f.get("property") == res["prop"] and f.get("obligation") and strip_idx(res["name"]).endswith(f["obligation"]):
            return f
    return None


# ------------------------------------------------------------------------------------------ replay
def replay(res, tier):
    """run the concrete replay driver for this obligation (under /venv/bin/python, same tree)"""
    key = res["meta"].get("replay")
    rdir = os.path.join(OUT, "replays", res["prop"])
    os.makedirs(rdir, exist_ok=True)
    safe = re.sub(r"[^A-Za-z0-9_.-]+", "_", res["name"])[:150]
    path = os.path.join(rdir, safe + ".json")
    record = {"obligation": res["name"], "property": res["prop"], "solver": res["backend"], "result": res["result"],
              "model": res.get("model"), "negated_goal_head": res.get("goal"), "meta": res["meta"], "reproduced": False}
    if key:
        try:
            out = subprocess.run([VENV_PY, os.path.join(VERIF, "replay", "run.py"), key, json.dumps(res.get("model") or {}), json.dumps(res["meta"])],
                                 capture_output=True, text=True, timeout=600, env={**os.environ, "VERIF_REPO": REPO, "PYTHONDONTWRITEBYTECODE": "1"})
            try:
                rr = json.loads(out.stdout.strip().splitlines()[-1])
            except Exception:
                rr = {"reproduced": False, "error": (out.stdout + out.stderr)[-1500:]}
            record["replay"] = rr
            record["reproduced"] = bool(rr.get("reproduced"))
            record["replay_cmd"] = f"{VENV_PY} {VERIF}/replay/run.py {key} '<model>' '<meta>'"
        except Exception as e:
            record["replay"] = {"reproduced": False, "error": repr(e)}
    json.dump(record, open(path, "w"), indent=1)
    return path, record["reproduced"]


# ------------------------------------------------------------------------------------------ thorough tier
def thorough_extras(prop, results, extra_out):
    """on top of the proof: (1) every concrete replay driver of the property run as a seeded search on the real code of the tree under
    check (bounded, never counted as proved; a failing input it finds is a violation with a replayed input); (2) cvc5 as second
    solver on a sample of the obligations (done per unit; a disagreement makes the run undecided); (3) the mutation self-test of
    this property's checks on scratch copies (reported; it says something about the check, not about the tree)."""
    import concurrent.futures as cf
    findings = load_findings()
    keys = sorted({r["meta"].get("replay") for r in results if r["meta"].get("replay")})
    # a driver that serves only obligations failing exactly as a listed known finding searches for that finding: it is reported as
    # KNOWN-FINDING by the proof part already and is not searched again
    def _known_only(k):
        sats = [r for r in results if r["meta"].get("replay") == k and r["result"] == "sat"]
        return bool(sats) and all(finding_for(r, findings) for r in sats)
    known_only = {k for k in keys if _known_only(k)}
    keys = [k for k in keys if k not in known_only]
    for k in sorted(known_only):
        extra_out.setdefault("bounded", []).append({"what": f"concrete search {k}", "bound": "not run: it reproduces the listed known finding only", "failing_input_found": None})
    rdir = os.path.join(OUT, "replays", prop)
    os.makedirs(rdir, exist_ok=True)

    def run_key(key):
        try:
            out = subprocess.run([VENV_PY, os.path.join(VERIF, "replay", "run.py"), key, "{}", "{}"], capture_output=True, text=True, timeout=1500,
                                 env={**os.environ, "VERIF_REPO": REPO, "PYTHONDONTWRITEBYTECODE": "1"})
            rr = json.loads(out.stdout.strip().splitlines()[-1])
        except Exception as e:
            rr = {"reproduced": False, "error": repr(e)}
        return key, rr
    with cf.ThreadPoolExecutor(8) as ex:
        outs = list(ex.map(run_key, keys))
    for key, rr in outs:
        entry = {"what": f"concrete search {key} on the real code (function-level contract, seeded inputs)", "bound": str(rr.get("input"))[:300],
                 "failing_input_found": bool(rr.get("reproduced"))}
        if rr.get("error"):
            entry["error"] = str(rr["error"])[-300:]
        extra_out.setdefault("bounded", []).append(entry)
        if rr.get("reproduced"):
            # a failing input found on the tree under check is a violation with a replayed input - but only if it is found again
            # (drivers that touch a pty or the clock must not turn a timing accident into an alarm)
            _, rr2 = run_key(key)
            if not rr2.get("reproduced"):
                entry["failing_input_found"] = False
                entry["inconsistent"] = "a failing input was reported once and not on the immediate re-run; treated as undecided, not as a violation"
                extra_out.setdefault("undecided", []).append(f"concrete-search={key} reason=not-reproducible-on-re-run")
                continue
            path = os.path.join(rdir, "thorough_" + re.sub(r"[^A-Za-z0-9_.-]+", "_", key) + ".json")
            json.dump({"obligation": f"concrete search {key}", "property": prop, "replay": rr, "reproduced": True,
                       "replay_cmd": f"{VENV_PY} {VERIF}/replay/run.py {key} '{{}}' '{{}}'"}, open(path, "w"), indent=1)
            extra_out.setdefault("violations", []).append(f"VIOLATION property={prop} replay={path}")
    so = [r["second_opinion"] for r in results if r.get("second_opinion")]
    disagree = [r["name"] for r in results if r.get("second_opinion", {}).get("result") == "sat"]
    rep = extra_out.setdefault("report", {})
    rep["second_solver"] = {"solver": "cvc5-1.0.3", "sampled": len(so), "unsat": sum(1 for x in so if x["result"] == "unsat"),
                            "unknown": sum(1 for x in so if x["result"] == "unknown"), "disagreements": disagree[:5]}
    for nme in disagree[:5]:
        extra_out.setdefault("undecided", []).append(f"obligation={nme} reason=solvers-disagree(z3 unsat, cvc5 sat)")
    # mutation self-test of this property's checks
    if os.environ.get("VERIF_NO_MUTANTS") != "1":
        try:
            sys.path.insert(0, VERIF)
            import importlib.util
            spec = importlib.util.spec_from_file_location("verif_selftest", os.path.join(VERIF, "tools", "selftest.py"))
            st = importlib.util.module_from_spec(spec)
            spec.loader.exec_module(st)
            mine = [m_ for m_ in st.M if m_["prop"] == prop]
            with cf.ThreadPoolExecutor(4) as ex:
                res = list(ex.map(st.run, mine))
            rep["mutation_selftest"] = {"mutants": len(mine), "as_expected": sum(1 for mu, v, _ in res if v == mu["expect"]),
                                        "not_as_expected": [f"{mu['id']}: {v} (expected {mu['expect']})" for mu, v, _ in res if v != mu["expect"]]}
        except Exception as e:
            rep["mutation_selftest"] = {"error": repr(e)}


# ------------------------------------------------------------------------------------------ main
def main(argv=None):
    ap = argparse.ArgumentParser()
    ap.add_argument("prop")
    ap.add_argument("--tier", default=os.environ.get("VERIF_TIER", "quick"))
    ap.add_argument("--update-lock", action="store_true")
    ap.add_argument("--only", default=None, help="substring of unit names to run (debugging; never writes evidence)")
    ap.add_argument("--jobs", type=int, default=int(os.environ.get("VERIF_JOBS", "16")))
    ap.add_argument("--verbose", "-v", action="store_true")
    a = ap.parse_args(argv)
    prop = a.prop
    t0 = time.time()
    seed = int(os.environ.get("VERIF_SEED", "0"))
    try:
        mod = importlib.import_module(f"contracts.{prop}")
    except ModuleNotFoundError as e:
        print(f"CHECKER-ERROR no contracts for {prop}: {e}")
        return 3
    units = UNITS.get(prop, [])
    if a.tier != "thorough":
        sel = [(i, u) for i, u in enumerate(units) if not u[2].get("thorough_only")]
    else:
        sel = list(enumerate(units))
    if a.only:
        sel = [(i, u) for i, u in sel if a.only in u[0]]
    if not sel:
        print(f"CHECKER-ERROR property={prop} zero units")
        return 3
    try:
        Ctx.load_consts(REPO)
    except Exception as e:
        # the tree does not import: nothing can be decided, and it is not a verdict about the property
        print(f"UNDECIDED property={prop} reason=constants-dump-failed {str(e)[-400:]}")
        return 2
    jobs = [(prop, i, REPO, a.tier) for i, _ in sel]
    with mp.get_context("fork").Pool(min(a.jobs, len(jobs))) as pool:
        outs = pool.map(_run_unit, jobs, chunksize=1)
    results = [r for o in outs for r in o["results"]]
    extra = getattr(mod, "extra_checks", None)
    try:
        extra_out = extra(a.tier, seed) if extra else {}
    except Unsupported as e:
        extra_out = {"undecided": [f"unit=extra-checks reason=out of subset: {e}"]}
    if a.tier == "thorough" and not a.only:
        thorough_extras(prop, results, extra_out)
    findings = load_findings()
    lock_path = os.path.join(VERIF, "contracts", "OBLIGATIONS.lock")
    lock = json.load(open(lock_path)) if os.path.exists(lock_path) else {}
    kinds = sorted({strip_idx(r["name"]) for r in results})
    status = 0
    lines = []
    undecided, errors = [], []
    for o in outs:
        if o["status"] == "undecided":
            undecided.append(f"unit={o['unit']} reason={o['reason']}")
        elif o["status"] == "error":
            errors.append(f"unit={o['unit']} {o['reason']}\n{o.get('trace', '')}")
        if o["status"] == "ok" and not o["results"]:
            errors.append(f"unit={o['unit']} generated zero obligations")
        if o["canaries"]["checked"] and o["canaries"]["vacuous"] == o["canaries"]["checked"]:
            errors.append(f"unit={o['unit']} every exit path is vacuous (contradictory pre-condition or assumption)")
    for r in results:
        if r["result"] == "unknown":
            undecided.append(f"obligation={r['name']} reason=solver-unknown")
    if a.update_lock and not a.only:
        # only obligations that hold are expected to be generated again (a failing path's obligation disappears with the defect)
        lock[prop] = sorted({strip_idx(r["name"]) for r in results if r["result"] == "unsat"})
        json.dump(lock, open(lock_path, "w"), indent=0, sort_keys=True)
    elif not a.only:
        missing = [k for k in lock.get(prop, []) if k not in set(kinds)]
        if prop not in lock:
            errors.append("no lock entry for this property (run with --update-lock on the unchanged tree)")
        # obligations missing because a unit is already undecided/error are reported there
        bad_units = {o["unit"] for o in outs if o["status"] != "ok"}
        missing = [k for k in missing if not any(("/" + u + "/") in ("/" + k + "/") or k.split("/")[1:2] == [u] for u in bad_units)]
        for k in missing[:10]:
            undecided.append(f"obligation={k} reason=expected-obligation-not-generated")
    violations = []
    known = []
    for r in results:
        if r["result"] == "sat":
            f = finding_for(r, findings)
            if f:
                known.append((r, f))
            else:
                violations.append(r)
    for r, f in known:
        pass
    seen_known = set()
    for r, f in known:
        key = (f.get("obligation"), f.get("what"))
        if key in seen_known:
            continue
        seen_known.add(key)
        lines.append(f"KNOWN-FINDING: property={prop} {f['what']}")
    for msg, tag in extra_out.get("known", []):
        lines.append(f"KNOWN-FINDING: property={prop} {msg}")
    vio_lines = []
    seen_v = set()
    for r in violations:
        k = strip_idx(r["name"])
        if k in seen_v and not a.verbose:
            continue
        seen_v.add(k)
        path, reproduced = replay(r, a.tier)
        if not reproduced and r["meta"].get("over_approx"):
            # the obligation fails only from a loop head where locals the unit does not know ({names}) were given every value of
            # their shape; without a failing input on the real code that is not evidence of a violation
            undecided.append(f"obligation={r['name']} reason=fails-under-over-approximated-loop-state({r['meta']['over_approx']});no-failing-input-found replay={path}")
            continue
        vio_lines.append(f"VIOLATION property={prop} replay={path}" + ("" if reproduced else " no-failing-input-found"))
    for v in extra_out.get("violations", []):
        vio_lines.append(v)
    # obligations that fail exactly as a listed known finding are reported separately, not as part of the proof
    n_obl = len(results) - len(known) + extra_out.get("obligations", 0)
    n_dis = sum(1 for r in results if r["result"] == "unsat") + extra_out.get("discharged", 0)
    if errors:
        status = 3
    elif vio_lines:
        status = 1
    elif undecided or extra_out.get("undecided"):
        status = 2
    undecided += extra_out.get("undecided", [])
    # ---------------- evidence
    if not a.only:
        fns = []
        for o in outs:
            for f in o["functions"]:
                if f not in fns:
                    fns.append(f)
        assumptions = []
        for o in outs:
            for x in o["assumptions"]:
                if x not in assumptions:
                    assumptions.append(x)
        assumptions += [x for x in getattr(mod, "ASSUMPTIONS", []) if x not in assumptions]
        samples = [{"obligation": r["name"], "negated-goal (SMT-LIB head)": r.get("smt_head"), "result": r["result"], "backend": r["backend"],
                    "solver_s": r["time"]} for r in results if r.get("smt_head")][:12]
        by_backend = {}
        for r in results:
            by_backend[r["backend"]] = by_backend.get(r["backend"], 0) + 1
        ev = {
            "property_id": prop, "tier": "thorough" if a.tier == "thorough" else "quick", "seed": seed, "level": "proof",
            "coverage": {
                "obligations": n_obl, "discharged": n_dis,
                "checker_cmd": f"cd /verif && ./check {prop} --tier {a.tier}",
                "trusted_base": getattr(mod, "TRUSTED", []) + COMMON_TRUST,
                "samples": samples or [{"obligation": r["name"], "result": r["result"]} for r in results[:5]],
                "functions_under_contract": fns,
                "units": [{"unit": o["unit"], "status": o["status"], "obligations": len(o["results"]),
                           "discharged": sum(1 for r in o["results"] if r["result"] == "unsat"), "wall_s": o["wall"],
                           "solver_s": round(sum(r["time"] for r in o["results"]), 3), "canaries": o["canaries"],
                           **({"reason": o["reason"]} if o["status"] != "ok" else {})} for o in outs],
                "obligation_kinds": len(kinds), "backends": by_backend,
                "solver_s_total": round(sum(r["time"] for r in results), 3),
                "slowest": sorted(({"obligation": r["name"], "s": r["time"]} for r in results), key=lambda x: -x["s"])[:3],
                "canaries": {"checked": sum(o["canaries"]["checked"] for o in outs), "vacuous_paths": sum(o["canaries"]["vacuous"] for o in outs)},
                "not_decided": getattr(mod, "NOT_DECIDED", []) + [x for o in outs for x in o["not_decided"]],
                "bounded_standins": extra_out.get("bounded", []) + [x for o in outs for x in o["bounded"]],
                "extra": extra_out.get("report", {}),
                "known_finding_obligations_not_discharged": [r["name"] for r, f in known],
                "undecided": undecided[:20], "known_findings_reported": [l for l in lines if l.startswith("KNOWN")],
                "verdict": {0: "held", 1: "violation", 2: "undecided", 3: "checker-error"}[status],
            },
            "assumptions": assumptions,
            "wall_s": round(time.time() - t0, 2),
            "violations": len(vio_lines),
        }
        os.makedirs(os.path.join(OUT, "evidence"), exist_ok=True)
        json.dump(ev, open(os.path.join(OUT, "evidence", f"{prop}.json"), "w"), indent=1)
    for l in lines:
        print(l)
    for l in vio_lines:
        print(l)
    for u in undecided[:30]:
        print(f"UNDECIDED property={prop} {u}")
    for e in errors:
        print(f"CHECKER-ERROR property={prop} {e}")
    if a.verbose:
        for r in results:
            if r["result"] != "unsat":
                print("  ", r["result"], r["name"], json.dumps(r.get("model"))[:600])
    if status == 0:
        print(f"HELD property={prop} obligations={n_obl} discharged={n_dis} units={len(outs)} wall={time.time() - t0:.1f}s")
    else:
        print(f"exit={status} property={prop} obligations={n_obl} discharged={n_dis} wall={time.time() - t0:.1f}s")
    return status


COMMON_TRUST = [
    "pyvc (this repository's VC generator): its encoding of Python semantics for the subset of DESIGN 2.3",
    "z3 4.15/5.1 (python3-vt wheel) and /usr/bin/cvc5 1.0.3 soundness",
    "Python ints as mathematical integers (exact); floats as reals (A-FLOAT) where a unit says so",
    "termination is not proved",
]

if __name__ == "__main__":
    sys.path.insert(0, VERIF)
    sys.exit(main())
