import sys, os
sys.path.insert(0, os.path.dirname(os.path.dirname(os.path.abspath(__file__))))
from pyvc.runner import main
sys.exit(main())
