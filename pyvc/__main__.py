import sys, os, traceback
sys.path.insert(0, os.path.dirname(os.path.dirname(os.path.abspath(__file__))))
from pyvc.runner import main
from pyvc.values import Unsupported
try:
    rc = main()
except SystemExit:
    raise
except Unsupported as e:
    # code outside the supported subset reached a part of the checker that runs in the main process: nothing is decided
    print(f"UNDECIDED reason=out of subset: {e}")
    rc = 2
except BaseException:  # noqa: BLE001  a crash of the checker is never a verdict about the property
    traceback.print_exc()
    print("CHECKER-ERROR uncaught exception in the checker (see the traceback above)")
    rc = 3
sys.exit(rc)
