"""Value model of the VC generator (DESIGN 2.3).

Python values are represented as:
  int/bool/float/str/bytes/None/tuple   -> themselves when concrete
  z3 Int / Real / Bool                   -> symbolic scalars (mathematical ints, floats as reals: A-FLOAT)
  Ref                                    -> reference into the symbolic heap (objects, lists, dicts)
  EnumV, ExcVal, Rec, SeqV, ClassV, Closure, Bound, Fn, Opaque, TS (tstr.py)
Anything outside raises Unsupported, which the runner reports as UNDECIDED, never as a violation.
"""
import itertools
try:
    import z3
except ImportError:        # concrete mode under /venv/bin/python (replays): spec helpers work on python values only
    z3 = None


class Unsupported(Exception):
    """construct outside the supported subset -> undecided"""


class Ref:
    _n = itertools.count(1)

    def __init__(self, cls, tag=None):
        self.id = next(Ref._n)
        self.cls = cls
        self.tag = tag

    def __repr__(self):
        return f"&{self.cls}#{self.id}"


class EnumV:
    """member of an enum class; value is the python value of the member (may be None)"""
    _interned = {}

    def __new__(cls, ecls, name, value=None):
        key = (ecls, name)
        if key not in EnumV._interned:
            o = object.__new__(cls)
            o.cls, o.name, o.value = ecls, name, value
            EnumV._interned[key] = o
        return EnumV._interned[key]

    def __repr__(self):
        return f"{self.cls}.{self.name}"


class ExcVal:
    def __init__(self, cls, args=(), cause=None):
        self.cls, self.args, self.cause = cls, tuple(args), cause

    def __repr__(self):
        return f"<exc {self.cls}>"


class Opaque:
    """a value whose content is irrelevant (messages, reprs); any use that needs it is Unsupported"""

    def __init__(self, why=""):
        self.why = why

    def __repr__(self):
        return f"<opaque {self.why}>"


class Rec:
    """immutable record: NamedTuple-like (ordered fields, indexable) ; truthiness given by `valid`"""

    def __init__(self, name, fields, valid=True):
        self.name, self.f, self.valid = name, dict(fields), valid

    def __repr__(self):
        return f"<{self.name} {self.f}>"

    def astuple(self):
        return tuple(self.f.values())


class SeqV:
    """symbolic sequence: length + element function (index, state) -> value (evaluated lazily)"""

    def __init__(self, length, elem, kind="list"):
        self.length, self.elem, self.kind = length, elem, kind

    def __repr__(self):
        return f"<Seq {self.kind} len={self.length}>"


class ClassV:
    def __init__(self, name, bases=(), attrs=None):
        self.name, self.bases, self.attrs = name, tuple(bases), dict(attrs or {})

    def __repr__(self):
        return f"<class {self.name}>"


class Closure:
    def __init__(self, node, depth, name=None, defaults=None):
        self.node, self.depth, self.name, self.defaults = node, depth, name, defaults or {}

    def __repr__(self):
        return f"<closure {self.name}>"


class Bound:
    def __init__(self, recv, name):
        self.recv, self.name = recv, name

    def __repr__(self):
        return f"<bound {self.recv!r}.{self.name}>"


class Fn:
    """contract callable: f(eng, st, args, kwargs) -> [(value, state)]"""

    def __init__(self, f, name=""):
        self.f, self.name = f, name or getattr(f, "__name__", "?")

    def __repr__(self):
        return f"<fn {self.name}>"


class Namespace:
    """module / class namespace made of name -> value"""

    def __init__(self, name, d):
        self.name, self.d = name, d

    def __repr__(self):
        return f"<ns {self.name}>"


def is_sym(v):
    return z3 is not None and isinstance(v, z3.ExprRef)


def to_z3(v):
    if is_sym(v):
        return v
    if isinstance(v, bool):
        return z3.BoolVal(v)
    if isinstance(v, int):
        return z3.IntVal(v)
    if isinstance(v, float):
        from fractions import Fraction
        fr = Fraction(v)
        return z3.RealVal(f"{fr.numerator}/{fr.denominator}")
    raise Unsupported(f"to_z3 {v!r}")


def as_arith(v):
    """bool -> int coercion as python does in arithmetic"""
    if is_sym(v) and z3.is_bool(v):
        return z3.If(v, 1, 0)
    if isinstance(v, bool):
        return int(v)
    if isinstance(v, EnumV) and isinstance(v.value, int):
        return v.value
    return v


# ----- dual-mode spec helpers (work on python concretes and on z3 terms): DESIGN appendix E -------------

def And(*xs):
    xs = [x for x in xs if x is not True]
    if any(x is False for x in xs):
        return False
    if not xs:
        return True
    if len(xs) == 1 and is_sym(xs[0]) and z3.is_bool(xs[0]):
        return xs[0]
    if any(is_sym(x) for x in xs):
        return z3.And(*[to_z3(x) for x in xs])
    return all(xs)


def Or(*xs):
    xs = [x for x in xs if x is not False]
    if any(x is True for x in xs):
        return True
    if not xs:
        return False
    if any(is_sym(x) for x in xs):
        return z3.Or(*[to_z3(x) for x in xs])
    return any(xs)


def Not(x):
    return z3.Not(x) if is_sym(x) else (not x)


def Implies(a, b):
    return Or(Not(a), b)


def If(c, a, b):
    if is_sym(c):
        if isinstance(a, tuple) and isinstance(b, tuple) and len(a) == len(b):
            return tuple(If(c, x, y) for x, y in zip(a, b))
        return z3.If(c, to_z3(a), to_z3(b))
    return a if c else b


def Max(a, b):
    if is_sym(a) or is_sym(b):
        a, b = to_z3(a), to_z3(b)
        return z3.If(b > a, b, a)
    return max(a, b)


def Min(a, b):
    if is_sym(a) or is_sym(b):
        a, b = to_z3(a), to_z3(b)
        return z3.If(b < a, b, a)
    return min(a, b)


def Eq(a, b):
    """structural equality usable in both modes"""
    if isinstance(a, Rec):
        a = a.astuple()
    if isinstance(b, Rec):
        b = b.astuple()
    if isinstance(a, tuple) and isinstance(b, tuple):
        if len(a) != len(b):
            return False
        return And(*[Eq(x, y) for x, y in zip(a, b)])
    if is_sym(a) or is_sym(b):
        if a is None or b is None or isinstance(a, (EnumV, Ref)) or isinstance(b, (EnumV, Ref)):
            return False
        return to_z3(a) == to_z3(b)
    return a == b if not isinstance(a, (Ref, EnumV)) else a is b


def floordiv(a, b):
    if is_sym(a) or is_sym(b):
        a, b = to_z3(as_arith(a)), to_z3(as_arith(b))
        if z3.is_int(a) and z3.is_int(b):
            if z3.is_int_value(b):
                return a / b if b.as_long() > 0 else (-a) / (-b)
            return z3.If(b > 0, a / b, (-a) / (-b))
        q = z3.ToReal(a) / z3.ToReal(b) if z3.is_int(a) or z3.is_int(b) else a / b
        return z3.ToReal(z3.ToInt(q))
    return a // b


def mod(a, b):
    if is_sym(a) or is_sym(b):
        a, b = to_z3(as_arith(a)), to_z3(as_arith(b))
        return a - b * floordiv(a, b)
    return a % b


def truediv(a, b):
    if is_sym(a) or is_sym(b):
        a, b = to_z3(as_arith(a)), to_z3(as_arith(b))
        a = z3.ToReal(a) if z3.is_int(a) else a
        b = z3.ToReal(b) if z3.is_int(b) else b
        return a / b
    return a / b


_ROUND = z3.Function("py_round", z3.RealSort(), z3.IntSort()) if z3 is not None else None


def ceil_(x):
    if is_sym(x):
        if z3.is_int(x):
            return x
        return -z3.ToInt(-x)
    import math
    return math.ceil(x)


def floor_(x):
    if is_sym(x):
        return x if z3.is_int(x) else z3.ToInt(x)
    import math
    return math.floor(x)
