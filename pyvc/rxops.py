"""Contracts of re.Pattern.search / match on symbolic (z3) strings, for `flat` patterns (rx.flat_items).

search(S):      no occurrence anywhere                          -> None
                S = u . m . r,  m the greedy match of one of the pattern's shapes, no occurrence starts inside u (leftmost)
match(S, pos):  the text from pos does not start with a match   -> None
                S[pos:] = m . r, m the greedy match
A Match object answers group(), groups(), start(), end().  The decomposition (u, m, r) is remembered in the state so that
S[:start] and S[end:] are the pieces themselves instead of substr terms."""
import z3
from . import rx
from .values import Ref, Unsupported, is_sym, to_z3

ALL = lambda: z3.Full(z3.ReSort(z3.StringSort()))


def _cat(parts):
    parts = list(parts)
    if not parts:
        return z3.Re("")
    return parts[0] if len(parts) == 1 else z3.Concat(*parts)


def make_pattern(st, src, flags, nd):
    items = rx.flat_items(src, flags, nd)
    alts = rx.alternatives(items)
    return st.new("Pattern", {"pattern": src, "flags": flags, "groups": 0, "@alts": alts, "@re": rx.to_z3re(src, flags, nd=nd)})


def remember(s, S, pos, prefix=None, suffix=None):
    recs = list(s.ghost.get("@strparts", []))
    recs.append((S, to_z3(pos), prefix, suffix))
    s.ghost["@strparts"] = recs


def lookup(s, S, pos, which):
    for S2, p2, pre, suf in s.ghost.get("@strparts", []):
        if z3.eq(S2, S) and z3.eq(z3.simplify(p2), z3.simplify(to_z3(pos))):
            v = pre if which == "prefix" else suf
            if v is not None:
                return v
    return None


def suffix_at(s, S, pos):
    r = lookup(s, S, pos, "suffix")
    if r is not None:
        return r
    pos = to_z3(pos)
    return z3.SubString(S, pos, z3.Length(S) - pos)


def install(eng):
    n = [0]

    def fresh(tag):
        n[0] += 1
        return z3.String(f"{tag}!{next(eng.fresh)}")

    def shapes(e, s, P, text_parts, after):
        """path per shape: -> [(m, r, state)] with  text == m . r,  m in shape, greedy.
        m is built from one string of length 1 per fixed item (and one for the repeated rest), remembered in the state, so that
        slices and indexes of the matched text at constant positions are those pieces instead of substr terms."""
        outs = []
        for head, tail in s.H(P)["@alts"]:
            s2 = e.fork(s)
            r = fresh("r")
            pieces = []
            for cr in head:
                c = fresh("c")
                s2.pc += [z3.Length(c) == 1, z3.InRe(c, cr)]
                pieces.append((c, 1))
            if tail is not None:
                tl = fresh("more")
                s2.pc += [z3.InRe(tl, z3.Star(tail)), z3.Not(z3.InRe(r, z3.Concat(tail, ALL())))]      # greedy: takes all it can
                pieces.append((tl, None))
            m = z3.Concat(*[p for p, _ in pieces]) if len(pieces) > 1 else pieces[0][0]
            s2.pc.append(text_parts == z3.Concat(m, r))
            s2.ghost["@pieces"] = list(s2.ghost.get("@pieces", [])) + [(m, pieces)]
            if e.feasible(s2.pc):
                outs.append((m, r, s2))
        return outs

    def new_match(s, m, start, end):
        return s.new("Match", {"@m": m, "@start": start, "@end": end})

    def search(e, s, P, a, k):
        S = a[0]
        pos = a[1] if len(a) > 1 else k.get("pos")
        if len(a) > 2 or set(k) - {"pos"}:
            raise Unsupported("search with endpos")
        if not (is_sym(S) and z3.is_string(S)):
            raise Unsupported("search on a non-symbolic string")
        h = s.H(P)
        T = S if pos is None else suffix_at(s, S, pos)          # the text searched; offsets count from `off`
        off = z3.IntVal(0) if pos is None else to_z3(pos)
        outs = []
        nf = e.fork(s, z3.Not(z3.InRe(T, z3.Concat(ALL(), h["@re"], ALL()))))
        if e.feasible(nf.pc):
            outs.append((None, nf))
        u, t = fresh("u"), fresh("t")
        s1 = e.fork(s, T == z3.Concat(u, t))
        # leftmost: no shape's fixed window fits at a position inside u (a window may run over into the matched text)
        for head, tail in h["@alts"]:
            w = _cat(head)
            s1.pc.append(z3.Not(z3.InRe(z3.Concat(u, z3.SubString(t, 0, len(head) - 1)), z3.Concat(ALL(), w, ALL()))))
        for m, r, s2 in shapes(e, s1, P, t, None):
            start = off + z3.Length(u)
            end = start + z3.Length(m)
            if pos is None:
                remember(s2, S, start, prefix=u)
            remember(s2, S, end, suffix=r)
            outs.append((new_match(s2, m, start, end), s2))
        return outs
    eng.methods[("Pattern", "search")] = search

    def match(e, s, P, a, k):
        S = a[0]
        pos = a[1] if len(a) > 1 else k.get("pos", 0)
        if not (is_sym(S) and z3.is_string(S)):
            raise Unsupported("match on a non-symbolic string")
        h = s.H(P)
        t = suffix_at(s, S, pos)
        outs = []
        nf = e.fork(s, z3.Not(z3.InRe(t, z3.Concat(h["@re"], ALL()))))
        if e.feasible(nf.pc):
            outs.append((None, nf))
        for m, r, s2 in shapes(e, s, P, t, None):
            end = to_z3(pos) + z3.Length(m)
            remember(s2, S, end, suffix=r)
            outs.append((new_match(s2, m, to_z3(pos), end), s2))
        return outs
    eng.methods[("Pattern", "match")] = match
    eng.methods[("Match", "group")] = lambda e, s, M, a, k: [(s.H(M)["@m"], s)] if not a or tuple(a) == (0,) else (_ for _ in ()).throw(Unsupported("group(n)"))
    eng.methods[("Match", "groups")] = lambda e, s, M, a, k: [((), s)]
    eng.methods[("Match", "start")] = lambda e, s, M, a, k: [(s.H(M)["@start"], s)]
    eng.methods[("Match", "end")] = lambda e, s, M, a, k: [(s.H(M)["@end"], s)]


def pieces_of(s, v):
    for m, ps in s.ghost.get("@pieces", []):
        if z3.eq(m, v):
            return ps
    return None


def piece_slice(s, v, lo, hi):
    """v[lo:hi] for constant bounds that fall on piece boundaries of a matched text; None when it does not apply"""
    ps = pieces_of(s, v)
    if ps is None or is_sym(lo) or is_sym(hi):
        return None
    fixed = [p for p, n in ps if n == 1]
    variable = [p for p, n in ps if n is None]
    lo = 0 if lo is None else lo
    if lo < 0 or hi is not None:
        return None
    if lo <= len(fixed):
        rest = [p for p, _ in ps][lo:]
        if not rest:
            return z3.StringVal("")
        return z3.Concat(*rest) if len(rest) > 1 else rest[0]
    return None


def piece_index(s, v, i):
    ps = pieces_of(s, v)
    if ps is None or is_sym(i):
        return None
    fixed_prefix = []
    for p, n in ps:
        if n != 1:
            break
        fixed_prefix.append(p)
    if 0 <= i < len(fixed_prefix):
        return fixed_prefix[i]
    if i < 0 and all(n == 1 for _, n in ps) and -i <= len(ps):
        return ps[i][0]
    return None
