"""sre_parse -> z3 regular expressions (DESIGN 4.4).  Supported: literals, classes, \\d under re.ASCII, '.', ?, +, *,
{m,n}, alternation, groups.  Anything else is Unsupported (-> undecided).  For fullmatch a backtracking regex without
look-around / back-references denotes exactly its regular language."""
import re
import z3
from .values import Unsupported
try:
    import re._parser as sre_parse
    import re._constants as C
except ImportError:  # pragma: no cover
    import sre_parse
    import sre_constants as C

ANYCHAR = lambda: z3.AllChar(z3.ReSort(z3.StringSort()))


def to_z3re(pattern, flags, groups=None):
    """-> z3 regex; `groups` (optional dict) receives group number -> z3 regex of that group"""
    if flags & ~(re.ASCII | re.UNICODE | re.DOTALL):
        raise Unsupported(f"regex flags {flags}")
    tree = sre_parse.parse(pattern, flags)
    ascii_only = bool(flags & re.ASCII)
    dotall = bool(flags & re.DOTALL)

    def category(av):
        if av is C.CATEGORY_DIGIT and ascii_only:
            return z3.Range("0", "9")
        raise Unsupported(f"regex category {av}")

    def cls_item(op, av):
        if op is C.LITERAL:
            return z3.Re(chr(av))
        if op is C.RANGE:
            return z3.Range(chr(av[0]), chr(av[1]))
        if op is C.CATEGORY:
            return category(av)
        raise Unsupported(f"regex class item {op}")

    def seq(items):
        parts = [node(op, av) for op, av in items]
        if not parts:
            return z3.Re("")
        return parts[0] if len(parts) == 1 else z3.Concat(*parts)

    def node(op, av):
        if op is C.LITERAL:
            return z3.Re(chr(av))
        if op is C.NOT_LITERAL:
            return z3.Diff(ANYCHAR(), z3.Re(chr(av)))
        if op is C.ANY:
            return ANYCHAR() if dotall else z3.Diff(ANYCHAR(), z3.Re("\n"))
        if op is C.IN:
            neg = bool(av) and av[0][0] is C.NEGATE
            items = [cls_item(o, a) for o, a in (av[1:] if neg else av)]
            r = items[0] if len(items) == 1 else z3.Union(*items)
            return z3.Diff(ANYCHAR(), r) if neg else r
        if op is C.SUBPATTERN:
            r = seq(av[3])
            if groups is not None and av[0] is not None:
                groups[av[0]] = r
            return r
        if op is C.BRANCH:
            return z3.Union(*[seq(a) for a in av[1]])
        if op in (C.MAX_REPEAT, C.MIN_REPEAT):
            lo, hi, sub = av
            r = seq(sub)
            if (lo, hi) == (0, 1):
                return z3.Option(r)
            if hi is C.MAXREPEAT:
                return z3.Plus(r) if lo == 1 else z3.Star(r) if lo == 0 else z3.Concat(*([r] * lo), z3.Star(r))
            return z3.Loop(r, lo, hi)
        if op is C.CATEGORY:
            return category(av)
        raise Unsupported(f"regex construct {op}")
    return seq(tree)
