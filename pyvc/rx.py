"""sre_parse -> z3 regular expressions (DESIGN 4.4).  Supported: literals, classes, \\d under re.ASCII, '.', ?, +, *,
{m,n}, alternation, groups.  Anything else is Unsupported (-> undecided).  For fullmatch a backtracking regex without
look-around / back-references denotes exactly its regular language."""
import re
import z3
from .values import Unsupported
try:
    import re._parser as sre_parse
    import re._constants as C
except ImportError:  # pragma: no cover
    import sre_parse
    import sre_constants as C

ANYCHAR = lambda: z3.AllChar(z3.ReSort(z3.StringSort()))


def digit_class(ascii_only, nd):
    if ascii_only or not nd:
        if not ascii_only:
            raise Unsupported("\\d in a str pattern without re.ASCII (the Unicode digit table is not loaded)")
        return z3.Range("0", "9")
    return z3.Union(*[z3.Range(chr(a), chr(b)) for a, b in nd])


_FOLD = None


def fold_set(c, flags):
    """all characters that the one-character pattern `c` matches under re.IGNORECASE (decided by the re module itself on the
    candidates that share a lower / upper / case-folded form with `c`; with re.ASCII only ASCII letters fold)"""
    global _FOLD
    pat = re.compile(re.escape(c), flags & (re.IGNORECASE | re.ASCII | re.UNICODE))
    if flags & re.ASCII:
        cands = {c, c.lower(), c.upper()} if c.isascii() else {c}
    else:
        if _FOLD is None:
            _FOLD = {}
            for x in range(0x110000):
                ch = chr(x)
                for k in {ch.lower(), ch.upper(), ch.casefold()}:
                    if len(k) == 1:
                        _FOLD.setdefault(k, set()).add(ch)
        cands = {c}
        frontier = {c}
        for _ in range(3):
            nxt = set()
            for y in frontier:
                for k in {y, y.lower(), y.upper(), y.casefold()}:
                    if len(k) == 1:
                        nxt |= _FOLD.get(k, set()) | {k}
            frontier = nxt - cands
            cands |= nxt
    return sorted(x for x in cands if len(x) == 1 and pat.fullmatch(x))


def to_z3re(pattern, flags, groups=None, nd=None):
    """-> z3 regex; `groups` (optional dict) receives group number -> z3 regex of that group;
    nd: code point ranges of category Nd of the interpreter that runs the library (what \\d means without re.ASCII)"""
    if flags & ~(re.ASCII | re.UNICODE | re.DOTALL | re.IGNORECASE):
        raise Unsupported(f"regex flags {flags}")
    tree = sre_parse.parse(pattern, flags)
    ascii_only = bool(flags & re.ASCII)
    dotall = bool(flags & re.DOTALL)
    icase = bool(flags & re.IGNORECASE)

    def lit(cp):
        if not icase:
            return z3.Re(chr(cp))
        fs = fold_set(chr(cp), flags)
        return z3.Re(fs[0]) if len(fs) == 1 else z3.Union(*[z3.Re(x) for x in fs])

    def rng(lo, hi):
        if not icase:
            return z3.Range(chr(lo), chr(hi))
        if hi - lo > 512:
            raise Unsupported("large character range under re.IGNORECASE")
        chars = sorted({x for cp in range(lo, hi + 1) for x in fold_set(chr(cp), flags)})
        return z3.Union(*[z3.Re(x) for x in chars]) if len(chars) > 1 else z3.Re(chars[0])

    def category(av):
        if av is C.CATEGORY_DIGIT:
            return digit_class(ascii_only, nd)
        if av is C.CATEGORY_WORD and ascii_only:
            return z3.Union(z3.Range("a", "z"), z3.Range("A", "Z"), z3.Range("0", "9"), z3.Re("_"))
        raise Unsupported(f"regex category {av}")

    def cls_item(op, av):
        if op is C.LITERAL:
            return lit(av)
        if op is C.RANGE:
            return rng(av[0], av[1])
        if op is C.CATEGORY:
            return category(av)
        raise Unsupported(f"regex class item {op}")

    def seq(items):
        parts = [node(op, av) for op, av in items]
        if not parts:
            return z3.Re("")
        return parts[0] if len(parts) == 1 else z3.Concat(*parts)

    def node(op, av):
        if op is C.LITERAL:
            return lit(av)
        if op is C.NOT_LITERAL:
            return z3.Diff(ANYCHAR(), lit(av))
        if op is C.ANY:
            return ANYCHAR() if dotall else z3.Diff(ANYCHAR(), z3.Re("\n"))
        if op is C.IN:
            neg = bool(av) and av[0][0] is C.NEGATE
            items = [cls_item(o, a) for o, a in (av[1:] if neg else av)]
            r = items[0] if len(items) == 1 else z3.Union(*items)
            return z3.Diff(ANYCHAR(), r) if neg else r
        if op is C.SUBPATTERN:
            r = seq(av[3])
            if groups is not None and av[0] is not None:
                groups[av[0]] = r
            return r
        if op is C.BRANCH:
            return z3.Union(*[seq(a) for a in av[1]])
        if op in (C.MAX_REPEAT, C.MIN_REPEAT):
            lo, hi, sub = av
            r = seq(sub)
            if (lo, hi) == (0, 1):
                return z3.Option(r)
            if hi is C.MAXREPEAT:
                return z3.Plus(r) if lo == 1 else z3.Star(r) if lo == 0 else z3.Concat(*([r] * lo), z3.Star(r))
            return z3.Loop(r, lo, hi)
        if op is C.CATEGORY:
            return category(av)
        raise Unsupported(f"regex construct {op}")
    return seq(tree)


def flat_items(pattern, flags, nd=None):
    """A `flat` pattern: a concatenation of single-character items (literal, class, \\d), each taken once, optionally (`?`, greedy)
    or -- the last item only -- one or more times (`+`, greedy).  -> [(z3 regex of one character, "1" | "?" | "+")].
    For such a pattern, when no optional item can be confused with what follows it (checked by `alternatives`), the text matched
    at a given position is unique: the greedy match python's backtracking matcher returns."""
    if flags & ~(re.ASCII | re.UNICODE):
        raise Unsupported(f"regex flags {flags}")
    ascii_only = bool(flags & re.ASCII)
    tree = sre_parse.parse(pattern, flags)

    def one(op, av):
        if op is C.LITERAL:
            return z3.Re(chr(av))
        if op is C.IN:
            if av and av[0][0] is C.NEGATE:
                raise Unsupported("negated class in a flat pattern")
            parts = []
            for o, a in av:
                if o is C.LITERAL:
                    parts.append(z3.Re(chr(a)))
                elif o is C.RANGE:
                    parts.append(z3.Range(chr(a[0]), chr(a[1])))
                elif o is C.CATEGORY and a is C.CATEGORY_DIGIT:
                    parts.append(digit_class(ascii_only, nd))
                else:
                    raise Unsupported(f"class item {o}")
            return parts[0] if len(parts) == 1 else z3.Union(*parts)
        raise Unsupported(f"item {op} in a flat pattern")
    items = []
    for op, av in tree:
        if op is C.MAX_REPEAT:
            lo, hi, sub = av
            if len(sub) != 1:
                raise Unsupported("repeated group in a flat pattern")
            q = "?" if (lo, hi) == (0, 1) else "+" if (lo == 1 and hi is C.MAXREPEAT) else None
            if q is None:
                raise Unsupported(f"quantifier {{{lo},{hi}}} in a flat pattern")
            items.append((one(*sub[0]), q))
        else:
            items.append((one(op, av), "1"))
    if any(q == "+" for _, q in items[:-1]):
        raise Unsupported("`+` before the last item of a flat pattern")
    if tree.state.groups > 1:
        raise Unsupported("capturing groups in a flat pattern")
    return items


def _disjoint(a, b):
    c = z3.String("c!disj")
    s = z3.Solver()
    s.add(z3.Length(c) == 1, z3.InRe(c, a), z3.InRe(c, b))
    return s.check() == z3.unsat


def alternatives(items):
    """-> [(head: [char regex], tail: char regex | None)]: the fixed shapes a match can take (one per choice of the optional
    items), after checking that an optional item cannot be confused with any item that may follow it directly"""
    for i, (r, q) in enumerate(items):
        if q != "?":
            continue
        for r2, q2 in items[i + 1:]:
            if not _disjoint(r, r2):
                raise Unsupported("optional item overlaps what may follow it (match not unique)")
            if q2 != "?":
                break
    alts = [[]]
    for r, q in items:
        if q == "1":
            alts = [a + [r] for a in alts]
        elif q == "?":
            alts = [a + [r] for a in alts] + [list(a) for a in alts]
        else:
            alts = [a + [("+", r)] for a in alts]
    out = []
    for a in alts:
        tail = a[-1][1] if a and isinstance(a[-1], tuple) else None
        head = a[:-1] + [tail] if tail is not None else a        # the first character of the tail belongs to the fixed window
        out.append((head, tail))
    return out
