"""Runs under /venv/bin/python: dumps module-level constants of the real modules of the tree at argv[1] as JSON.

Every module-level name whose value is a plain scalar / string / bytes / tuple / list / dict of such, a compiled
regex, an enum member or an enum class is dumped, so a mutated constant changes the verification conditions.
"""
import enum
import importlib
import json
import re
import sys
import warnings

warnings.simplefilter("ignore")
repo = sys.argv[1]
sys.path.insert(0, repo + "/src")

MODULES = ["term_image", "term_image._ctlseqs", "term_image.padding", "term_image.geometry", "term_image.utils",
           "term_image.image.common", "term_image.image.block", "term_image.image.kitty", "term_image.image.iterm2",
           "term_image.image", "term_image.render._iterator", "term_image.renderable._renderable",
           "term_image.renderable._types", "term_image.renderable._enum", "term_image.widget._urwid", "term_image.color"]


def enc(v, depth=0):
    if depth > 4:
        raise TypeError
    if isinstance(v, enum.Enum):
        inner = v.value
        try:
            inner = enc(inner, depth + 1)
        except TypeError:
            inner = None
        return {"__enum__": type(v).__name__, "name": v.name, "value": inner}
    if v is None or isinstance(v, (bool, int, float, str)):
        return v
    if isinstance(v, bytes):
        return {"__bytes__": v.decode("latin1")}
    if isinstance(v, re.Pattern):
        p = v.pattern
        return {"__re__": p.decode("latin1") if isinstance(p, bytes) else p, "flags": v.flags, "bytes": isinstance(p, bytes)}
    if isinstance(v, (tuple, list)):
        return {"__tuple__" if isinstance(v, tuple) else "__list__": [enc(x, depth + 1) for x in v]}
    if isinstance(v, (set, frozenset)):
        return {"__set__": sorted((enc(x, depth + 1) for x in v), key=repr)}
    if isinstance(v, dict):
        return {"__dict__": [[enc(k, depth + 1), enc(x, depth + 1)] for k, x in v.items()]}
    if isinstance(v, type) and issubclass(v, enum.Enum):
        return {"__enumcls__": v.__name__, "members": {m.name: enc(m, depth + 1) for m in v}}
    raise TypeError


out = {}
for name in MODULES:
    try:
        m = importlib.import_module(name)
    except Exception as e:  # a module that does not import is reported, not hidden
        out[name] = {"__import_error__": repr(e)}
        continue
    d = {}
    for k, v in vars(m).items():
        if k.startswith("__"):
            continue
        try:
            d[k] = enc(v)
        except TypeError:
            continue
    out[name] = d

# class-level constants the contracts refer to
import term_image.image.common as common  # noqa: E402
from term_image.image import BlockImage, ITerm2Image, KittyImage  # noqa: E402

cls_attrs = {}
for cls in (common.BaseImage, common.TextImage, common.GraphicsImage, BlockImage, KittyImage, ITerm2Image):
    d = {}
    for k, v in vars(cls).items():
        if k.startswith("__"):
            continue
        try:
            d[k] = enc(v)
        except TypeError:
            continue
    cls_attrs[cls.__name__] = d
out["__classes__"] = cls_attrs
# what \d means for str patterns without re.ASCII in the interpreter that runs the library: the code points of category Nd
import unicodedata  # noqa: E402
nd, run = [], None
for cp in range(0x30000):
    if unicodedata.category(chr(cp)) == "Nd":
        if run and run[1] == cp - 1:
            run[1] = cp
        else:
            run = [cp, cp]
            nd.append(run)
out["__unicode_nd__"] = nd
json.dump(out, sys.stdout)
