"""Terminal-effect strings (DESIGN 4.1).

A symbolic `str` destined for a terminal is a TS: a list of pieces
    str                      literal characters (lexed by the VT machine char by char, so the real templates of
                             _ctlseqs.py are what is interpreted)
    IntDec(v)                decimal rendering of a symbolic int (a CSI parameter, a key value, ...)
    Text(n, ch)              n copies of a one-column printable character
    Rep(ts, n)               ts repeated n times
    Block(id, w, h, sep)     a render output obeying the render-output contract
    Payload(tag, lo, hi)     a slice of a ghost payload made of printable non-ESC characters (base64)
    Cond(c, ts)              ts if c else ""
    OpaqueS(tag)             unknown text (messages); using it in a terminal effect is Unsupported
"""
import ast
import re
import z3
from .values import Unsupported, Opaque, is_sym, to_z3, And, Or, Not, If, Max, Min, EnumV


class PyRaise(Exception):
    """the operation raises this Python exception at run time (reported as an exception path, not as unsupported)"""

    def __init__(self, exc):
        self.exc = exc


class IntDec:
    def __init__(self, v):
        self.v = v

    def __repr__(self):
        return f"Int({self.v})"


class Text:
    def __init__(self, n, ch):
        self.n, self.ch = n, ch

    def __repr__(self):
        return f"Text({self.n},{self.ch!r})"


class Rep:
    def __init__(self, ts, n):
        self.ts, self.n = ts, n

    def __repr__(self):
        return f"Rep({self.ts},{self.n})"


class Block:
    def __init__(self, id, w, h, sep=None, meta=None):
        self.id, self.w, self.h = id, w, h
        self.sep = sep if sep is not None else TS(["\n"])
        self.meta = meta or {}

    def __repr__(self):
        return f"Block({self.id},{self.w}x{self.h},sep={self.sep})"


class PBlock:
    """a padded render output as produced by Padding.pad under its C05 contract: (t + h + b) lines of (l + w + r)
    columns, the block at offset (l, t)"""

    def __init__(self, id, w, h, l, t, r, b, sep=None):
        self.id, self.w, self.h, self.l, self.t, self.r, self.b = id, w, h, l, t, r, b
        self.sep = sep       # None: lines joined by newlines; else every newline has been replaced by this string

    def __repr__(self):
        return f"PBlock({self.id},{self.w}x{self.h},+{self.l},{self.t},{self.r},{self.b})"


class Placement:
    """a complete graphics-protocol image transmission + placement, as summarised by the contract of the function that
    builds it (kitty: Transmission.get_chunks, proved separately; iTerm2: one OSC 1337 File command)"""

    def __init__(self, kind, c, r, moves_cursor=False, meta=None):
        self.kind, self.c, self.r, self.moves_cursor, self.meta = kind, c, r, moves_cursor, meta or {}

    def __repr__(self):
        return f"Placement({self.kind},{self.c}x{self.r})"


class Payload:
    def __init__(self, tag, lo, hi, decoded_len=None):
        self.tag, self.lo, self.hi, self.decoded_len = tag, lo, hi, decoded_len

    def __repr__(self):
        return f"Payload({self.tag}[{self.lo}:{self.hi}])"


class Cond:
    def __init__(self, c, ts):
        self.c, self.ts = c, ts

    def __repr__(self):
        return f"Cond({self.c},{self.ts})"


class OpaqueS:
    def __init__(self, tag="", nonempty=False):
        self.tag, self.nonempty = tag, nonempty      # nonempty: known to hold at least one character (literal text of a template)

    def __repr__(self):
        return f"OpaqueS({self.tag})"


class TS:
    def __init__(self, items=()):
        out = []
        for it in items:
            if isinstance(it, str):
                if not it:
                    continue
                if out and isinstance(out[-1], str):
                    out[-1] += it
                    continue
            out.append(it)
        self.items = out

    def __repr__(self):
        return "TS" + repr(self.items)

    def __add__(self, o):
        return TS(self.items + as_ts(o).items)

    def truth(self):
        """non-emptiness as python bool or z3 Bool"""
        r = False
        for it in self.items:
            if isinstance(it, str):
                return True
            if isinstance(it, IntDec):
                return True
            if isinstance(it, Text):
                r = Or(r, to_z3(it.n) > 0 if is_sym(it.n) else it.n > 0)
            elif isinstance(it, Rep):
                r = Or(r, And(it.ts.truth(), to_z3(it.n) > 0 if is_sym(it.n) else it.n > 0))
            elif isinstance(it, (Block, PBlock, Placement)):
                return True
            elif isinstance(it, Payload):
                r = Or(r, to_z3(it.hi) > to_z3(it.lo))
            elif isinstance(it, Cond):
                r = Or(r, And(it.c, it.ts.truth()))
            elif isinstance(it, OpaqueS) and it.nonempty:
                return True
            else:
                raise Unsupported(f"truth of {it!r}")
        return r

    def length(self):
        n = 0
        for it in self.items:
            if isinstance(it, str):
                n = n + len(it)
            elif isinstance(it, Text):
                n = n + it.n
            elif isinstance(it, Cond) :
                n = n + If(it.c, it.ts.length(), 0)
            else:
                raise Unsupported(f"len() of a terminal string containing {it!r}")
        return n

    def slice(self, lo, hi):
        raise Unsupported("slice of a terminal string")


def as_ts(v):
    if isinstance(v, TS):
        return v
    if isinstance(v, str):
        return TS([v])
    if isinstance(v, bool):
        return TS([str(v)])
    if isinstance(v, int):
        return TS([str(v)])
    if is_sym(v) and z3.is_int(v):
        return TS([IntDec(v)])
    if isinstance(v, Opaque):
        return TS([OpaqueS(v.why)])
    if is_sym(v) and z3.is_bool(v):
        return TS([OpaqueS("True-or-False")])        # only ever part of a message
    if isinstance(v, EnumV) and isinstance(v.value, str):
        return TS([v.value])
    if isinstance(v, (IntDec, Text, Rep, Block, PBlock, Placement, Payload, Cond, OpaqueS)):
        return TS([v])
    if isinstance(v, (tuple, frozenset)) and all(isinstance(x, (str, int)) and not isinstance(x, bool) for x in v):
        return TS([repr(tuple(v)) if isinstance(v, tuple) else "frozenset(" + repr(sorted(v, key=repr)) + ")"])      # only ever part of a message
    raise Unsupported(f"cannot render {v!r} into a string")


def concat(parts):
    if all(isinstance(p, str) for p in parts):
        return "".join(parts)
    if all(isinstance(p, (str, int)) and not isinstance(p, bool) for p in parts):
        return "".join(str(p) for p in parts)
    items = []
    for p in parts:
        items += as_ts(p).items
    return TS(items)


_FMT = re.compile(r"%(?:(%)|([dis c]))".replace(" ", ""))


def fmt_percent(template, args):
    if not isinstance(args, tuple):
        args = (args,)
    if isinstance(template, TS):
        if len(template.items) == 1 and isinstance(template.items[0], str):
            template = template.items[0]
        else:
            raise Unsupported("% on a symbolic template")
    if all(isinstance(a, (int, str, float)) for a in args):
        return template % args
    if re.search(r"%[0-9.#+\- ]*[xXofeEgGr]|%[0-9.#+\- ]+[dis]", template):
        # a rendering whose exact text is irrelevant to terminal effects; it is not empty if the template has literal text or a
        # numeric conversion (which prints at least one digit)
        lit = re.sub(r"%[0-9.#+\- ]*[a-zA-Z%]", "", template)
        return TS([OpaqueS("formatted text", nonempty=bool(lit) or bool(re.search(r"%[0-9.#+\- ]*[xXodifeEgG]", template)))])
    out, pos, k = [], 0, 0
    for m in re.finditer(r"%(.)", template):
        out.append(template[pos:m.start()])
        pos = m.end()
        c = m.group(1)
        if c == "%":
            out.append("%")
            continue
        if c not in "disc":
            raise Unsupported(f"format %{c}")
        if k >= len(args):
            raise PyRaise("TypeError")          # not enough arguments for format string
        a = args[k]
        k += 1
        if c in "di":
            if isinstance(a, (str, TS)):
                raise PyRaise("TypeError")
            out.append(a)
        elif c == "c":
            if isinstance(a, int):
                out.append(chr(a))
            else:
                out.append(a)
        else:
            out.append(a)
    if k != len(args):
        raise PyRaise("TypeError")              # not all arguments converted during string formatting
    out.append(template[pos:])
    return concat(out)


def str_binop(op, a, b):
    if isinstance(op, ast.Add):
        if isinstance(a, (str, TS)) and isinstance(b, (str, TS)):
            return concat([a, b])
        raise Unsupported("str + non-str")
    if isinstance(op, ast.Mult):
        s, n = (a, b) if isinstance(a, (str, TS)) else (b, a)
        if is_sym(n) and z3.is_bool(n):
            return TS([Cond(n, as_ts(s))]) if (s if isinstance(s, str) else True) else ""
        if isinstance(n, bool):
            n = int(n)
        if isinstance(s, str) and isinstance(n, int):
            return s * n
        if isinstance(s, str) and len(s) == 0:
            return ""
        if isinstance(s, str) and len(s) == 1 and s not in "\n\r\x1b\b\0":
            return TS([Text(n, s)])
        t = as_ts(s)
        if len(t.items) == 1 and isinstance(t.items[0], Text) and not isinstance(n, int):
            return TS([Text(t.items[0].n * n, t.items[0].ch)])
        if len(t.items) == 1 and isinstance(t.items[0], Text) and isinstance(t.items[0].n, int) and t.items[0].n == 1:
            return TS([Text(n, t.items[0].ch)])
        return TS([Rep(t, n)])
    if isinstance(op, ast.Mod):
        return fmt_percent(a, b)
    raise Unsupported(f"string op {type(op).__name__}")


def str_method(recv, name, args):
    if isinstance(recv, str) and all(isinstance(a, (str, int, tuple)) or a is None for a in args):
        if name == "join":
            return concat_join(recv, args[0])
        return getattr(recv, name)(*args)
    if name == "join":
        return concat_join(recv, args[0])
    if name == "replace":
        old, new = args[0], args[1]
        if isinstance(recv, TS) and len(recv.items) == 1 and isinstance(recv.items[0], Block) and isinstance(old, str):
            b = recv.items[0]
            # replace applies inside the block's separators only if the separator contains `old`
            if not all(isinstance(x, str) for x in b.sep.items):
                raise Unsupported("replace on a block with symbolic separator")
            sep_s = "".join(b.sep.items)
            if old == "\n" and b.meta.get("no_newline_inside_lines", True):
                parts = sep_s.split(old)
                newsep = []
                for i, p in enumerate(parts):
                    if i:
                        newsep.append(new)
                    newsep.append(p)
                return TS([Block(b.id, b.w, b.h, concat(newsep) if not isinstance(concat(newsep), str) else TS([concat(newsep)]), b.meta)])
            raise Unsupported("replace on block")
        if isinstance(recv, TS) and len(recv.items) == 1 and isinstance(recv.items[0], PBlock) and old == "\n":
            b = recv.items[0]
            if b.sep is not None:
                raise Unsupported("second replace on a padded block")
            return TS([PBlock(b.id, b.w, b.h, b.l, b.t, b.r, b.b, sep=as_ts(new))])
        if isinstance(recv, str) and isinstance(old, str):
            parts = recv.split(old)
            out = []
            for i, p in enumerate(parts):
                if i:
                    out.append(new)
                out.append(p)
            return concat(out)
        raise Unsupported("replace on symbolic string")
    if name == "format":
        raise Unsupported("str.format")
    if name in ("encode", "decode"):
        return recv
    raise Unsupported(f"str method {name} on {recv!r}")


def concat_join(sep, parts):
    if isinstance(parts, (str, TS)):
        if sep == "":
            return parts          # "".join(s) of a string re-assembles its characters
        raise Unsupported("str.join over the characters of a symbolic string")
    parts = list(parts)
    out = []
    for i, p in enumerate(parts):
        if i and sep:
            out.append(sep)
        out.append(p)
    return concat(out)


def ts_eq(a, b):
    if isinstance(a, TS) and isinstance(b, str) and b == "":
        return Not(a.truth())
    if isinstance(b, TS) and isinstance(a, str) and a == "":
        return Not(b.truth())
    if isinstance(a, TS) and isinstance(b, TS) and a is b:
        return True
    raise Unsupported("equality of terminal strings")


# =====================================================================================================
# Symbolic VT machine: DESIGN appendix A.  State lives in a dict `g` (st.ghost["vt"]), parser state concrete.
# =====================================================================================================

def vt_new(row, col, bottom, TW, TH, **extra):
    g = dict(row=row, col=col, bottom=bottom, TW=TW, TH=TH, vis=z3.BoolVal(True), sgr_default=z3.BoolVal(True),
             cmd_open=False, sync=z3.BoolVal(False), parser="ground", nl=z3.IntVal(0), line_idx=z3.IntVal(0),
             # accounting of the line being built (since last NL or start)
             line_w=z3.IntVal(0), written=z3.IntVal(0), skipped=z3.IntVal(0), blk_col=z3.IntVal(-1), blk_line=z3.IntVal(-1),
             blk_id=z3.IntVal(-1), ech_to=z3.IntVal(-1), erased_to=z3.IntVal(0), irregular=z3.BoolVal(False), last_nl=z3.BoolVal(False),
             interrupted=False, log=[])
    g.update(extra)
    return g


class VT:
    """interprets TS pieces on ghost terminal state; emits obligations through `eng.oblige`"""

    def __init__(self, eng, st, key="vt", tag="vt", line_pred=None, premise=None):
        self.eng, self.st, self.key, self.tag = eng, st, key, tag
        self.g = dict(st.ghost[key])
        self.line_pred = line_pred if line_pred is not None else self.g.get("line_pred")
        self.premise = premise if premise is not None else []

    def commit(self):
        self.st.ghost[self.key] = self.g

    def oblige(self, name, goal, **meta):
        st = self.st
        if self.premise:
            st = st.fork()
            st.pc += self.premise
        self.eng.oblige(f"{self.tag}/{name}", st, goal, **meta)

    # ---- feeding
    def feed(self, ts):
        for it in as_ts(ts).items:
            self.piece(it)
        return self

    def piece(self, it):
        g = self.g
        if isinstance(it, str):
            for ch in it:
                self.char(ch)
        elif isinstance(it, IntDec):
            p = g["parser"]
            if isinstance(p, tuple) and p[0] in ("csi", "str"):
                self.param_value(it.v)
            else:
                raise Unsupported("symbolic number printed as text")
        elif isinstance(it, Text):
            if g["parser"] != "ground":
                # printable text arriving while a control sequence is still open: the sequence was not complete
                self.oblige("complete-control-sequence", z3.Implies(to_z3(it.n) > 0 if not isinstance(it.n, int) else z3.BoolVal(it.n > 0), False),
                            detail="text inside an unterminated sequence")
                g["parser"] = "ground"
            self.print_run(it.n, it.ch)
        elif isinstance(it, Cond):
            self.cond(it)
        elif isinstance(it, Rep):
            self.rep(it.ts, it.n)
        elif isinstance(it, Block):
            self.block(it)
        elif isinstance(it, PBlock):
            self.pblock(it)
        elif isinstance(it, Placement):
            self.placement(it)
        elif isinstance(it, Payload):
            p = g["parser"]
            if isinstance(p, tuple) and p[0] == "str":
                self.str_payload(it)
            else:
                raise Unsupported("payload outside a command string")
        elif isinstance(it, OpaqueS):
            raise Unsupported("opaque text written to the terminal")
        else:
            raise Unsupported(f"piece {it!r}")

    # ---- characters (concrete lexer) ---------------------------------------------------------------
    def char(self, ch):
        g = self.g
        p = g["parser"]
        if p == "ground":
            if ch == "\x1b":
                g["parser"] = "esc"
            elif ch == "\n":
                self.newline()
            elif ch == "\r":
                g["col"] = z3.IntVal(0)
                g["irregular"] = z3.BoolVal(True)
            elif ch == "\b":
                g["col"] = Max(self.ncol() - 1, 0)
                g["irregular"] = z3.BoolVal(True)
            elif ch == "\0":
                pass
            elif ch == "\x07":
                pass
            else:
                self.print_run(1, ch)
        elif p == "esc":
            if ch == "[":
                g["parser"] = ("csi", "", [], "")      # (kind, private, params, current)
            elif ch == "_":
                g["parser"] = ("str", "apc", [], [])    # (kind, which, key/value pieces, payload pieces)
                g["cmd_open"] = True
            elif ch == "]":
                g["parser"] = ("str", "osc", [], [])
                g["cmd_open"] = True
            elif ch == "P":
                g["parser"] = ("str", "dcs", [], [])
                g["cmd_open"] = True
            elif ch == "\\":
                g["parser"] = "ground"                  # stray ST
                g["cmd_open"] = False
            else:
                self.oblige("complete-control-sequence", False, detail=f"ESC {ch!r}")
                g["parser"] = "ground"
        elif p[0] == "csi":
            _, priv, params, cur = p
            empty = isinstance(cur, str) and cur == ""
            if ch in "?>=<" and not params and empty:
                g["parser"] = ("csi", priv + ch, params, cur)
            elif ch.isdigit():
                if not isinstance(cur, str):
                    raise Unsupported("digit after a symbolic parameter")
                g["parser"] = ("csi", priv, params, cur + ch)
            elif ch == ";":
                g["parser"] = ("csi", priv, params + [self.fin_param(cur)], "")
            elif "@" <= ch <= "~":
                params = params + [self.fin_param(cur)] if (not empty or params) else []
                g["parser"] = "ground"
                self.csi(priv, params, ch)
            else:
                self.oblige("complete-control-sequence", False, detail=f"CSI byte {ch!r}")
                g["parser"] = "ground"
        elif p[0] == "str":
            _, which, keys, payload = p
            if ch == "\x1b":
                g["parser"] = ("str_esc", which, keys, payload)
            elif ch == "\x07" and which == "osc":
                g["parser"] = "ground"
                g["cmd_open"] = False
                self.command(which, keys)
            else:
                keys.append(ch) if not (keys and isinstance(keys[-1], str) and False) else None
                g["parser"] = ("str", which, keys, payload)
        elif p[0] == "str_esc":
            _, which, keys, payload = p
            if ch == "\\":
                g["parser"] = "ground"
                g["cmd_open"] = False
                self.command(which, keys)
            else:
                self.oblige("complete-control-sequence", False, detail="ESC inside command string")
                g["parser"] = "ground"
        else:
            raise Unsupported(f"parser state {p!r}")

    def fin_param(self, cur):
        if isinstance(cur, str) and cur == "":
            return None
        if isinstance(cur, str):
            return int(cur)
        return cur

    def param_value(self, v):
        g = self.g
        p = g["parser"]
        if p[0] == "csi":
            _, priv, params, cur = p
            if isinstance(cur, str) and cur.strip("0") == "":
                pass                      # leading zeros do not change the value
            elif not (isinstance(cur, str) and cur == ""):
                v = self.eng.sym_int("param_digits_then_number")      # digits followed by a number: some other value
                self.st.pc.append(v >= 0)
            # a negative number would print '-' which is not a parameter byte
            self.oblige("complete-control-sequence:param>=0", to_z3(v) >= 0)
            g["parser"] = ("csi", priv, params, v)
        else:
            p[2].append(IntDec(v))

    def str_payload(self, it):
        self.g["parser"][2].append(it)

    # ---- helpers
    def ncol(self):
        """column used by cursor movement (a pending-wrap cursor sits on the last column)"""
        g = self.g
        return Min(g["col"], g["TW"] - 1)

    def top(self):
        return self.g["bottom"] - self.g["TH"] + 1

    def newline(self):
        g = self.g
        self.line_done(final=False)
        g["bottom"] = If(to_z3(g["row"]) == to_z3(g["bottom"]), g["bottom"] + 1, g["bottom"])
        g["row"] = g["row"] + 1
        g["col"] = z3.IntVal(0)
        g["nl"] = g["nl"] + 1
        g["last_nl"] = z3.BoolVal(True)

    def acct(self):
        g = self.g
        a = {k: g[k] for k in ("line_idx", "line_w", "written", "skipped", "blk_col", "blk_line", "blk_id", "irregular",
                                "row", "col", "sgr_default")}
        a["erased_to"] = g.get("erased_to", 0)
        return a

    def line_done(self, final):
        g = self.g
        if self.line_pred is not None:
            self.oblige("line", self.line_pred(self.acct(), final), kind="line")
        g["line_idx"] = g["line_idx"] + 1
        for k in ("line_w", "written", "skipped"):
            g[k] = z3.IntVal(0)
        for k in ("blk_col", "blk_line", "blk_id", "ech_to"):
            g[k] = z3.IntVal(-1)
        g["erased_to"] = z3.IntVal(0)
        g["irregular"] = z3.BoolVal(False)

    def print_run(self, n, ch):
        g = self.g
        n = to_z3(n) if not isinstance(n, int) else n
        self.oblige("never-wraps", to_z3(g["col"]) + n <= to_z3(g["TW"]), kind="geometry")
        if g.get("cells") is not None:
            self.paint(g["col"], n, ch)
        g["col"] = g["col"] + n
        g["line_w"] = g["line_w"] + n
        g["written"] = g["written"] + n
        g["last_nl"] = If(n > 0, False, g["last_nl"]) if is_sym(n) else (z3.BoolVal(False) if n > 0 else g["last_nl"])
        g["log"] = g["log"] + [("text", n, ch)]

    def paint(self, col, n, ch):
        """cells [col, col+n) of the current line show glyph `ch` in the current colours: upper / lower half colours"""
        g = self.g
        kind = g["glyphs"].get(ch, 3)
        fg, bg = g["fg"], g["bg"]
        up, lo = (fg if kind == 1 else bg), (fg if kind == 2 else bg)
        if kind == 3:
            up = lo = (z3.BoolVal(False), z3.IntVal(-1), z3.IntVal(-1), z3.IntVal(-1))     # some other glyph: shows neither pixel
        k = z3.Int("k!paint")
        inside = z3.And(to_z3(col) <= k, k < to_z3(col) + to_z3(n))
        cells = dict(g["cells"])
        for half, val in (("up", up), ("lo", lo)):
            for comp, v in zip(("d", "r", "g", "b"), val):
                old = cells[half + comp]
                cells[half + comp] = z3.Lambda([k], z3.If(inside, to_z3(v), old[k]))
        g["cells"] = cells

    def csi(self, priv, params, fin):
        g = self.g
        g["last_nl"] = z3.BoolVal(False)
        def P(i, default=1):
            v = params[i] if i < len(params) and params[i] is not None else default
            return v
        if priv == "" and fin in "ABCD":
            v = P(0)
            n = If(to_z3(v) >= 1, v, 1) if is_sym(v) else (v if v >= 1 else 1)
            if fin == "A":
                g["row"] = Max(g["row"] - n, self.top())
                g["irregular"] = z3.BoolVal(True)
            elif fin == "B":
                g["row"] = Min(g["row"] + n, g["bottom"])
                g["irregular"] = z3.BoolVal(True)
            elif fin == "C":
                c0 = self.ncol()
                # skipped cells are "covered" only if they were erased just before (ECH n CUF n idiom)
                covered = to_z3(g["ech_to"]) >= c0 + n
                if g.get("img") is not None:
                    ir0, ir1, ic0, ic1 = g["img"]
                    covered = z3.Or(covered, z3.And(to_z3(ir0) <= to_z3(g["row"]), to_z3(g["row"]) < to_z3(ir1), to_z3(ic0) <= c0, c0 + n <= to_z3(ic1)))
                g["col"] = Min(c0 + n, g["TW"] - 1)
                g["line_w"] = g["line_w"] + n
                g["skipped"] = g["skipped"] + If(covered, 0, n)
                g["written"] = g["written"] + If(covered, n, 0)
                self.oblige("never-wraps", c0 + n <= to_z3(g["TW"]), kind="geometry")
            else:
                g["col"] = Max(self.ncol() - n, 0)
                g["irregular"] = z3.BoolVal(True)
            g["log"] = g["log"] + [("cursor", fin, n)]
        elif priv == "" and fin == "X":
            v = P(0)
            n = If(to_z3(v) >= 1, v, 1) if is_sym(v) else (v if v >= 1 else 1)
            g["ech_to"] = self.ncol() + n
            g["erased_to"] = Max(g.get("erased_to", 0), self.ncol() + n)     # rightmost column touched by an erase on this line
        elif priv == "" and fin == "m":
            if not params:
                g["sgr_default"] = z3.BoolVal(True)
                if g.get("cells") is not None:
                    g["fg"] = g["bg"] = (z3.BoolVal(True), z3.IntVal(0), z3.IntVal(0), z3.IntVal(0))
            else:
                ok = len(params) == 5 and params[0] in (38, 48) and params[1] == 2
                self.oblige("complete-control-sequence:sgr-form", z3.BoolVal(bool(ok)))
                if ok:
                    for c in params[2:]:
                        self.oblige("sgr-colour-in-range", And(to_z3(c) >= 0, to_z3(c) <= 255), kind="colour")
                    g["sgr_default"] = z3.BoolVal(False)
                    if g.get("cells") is not None:
                        g["fg" if params[0] == 38 else "bg"] = (z3.BoolVal(False),) + tuple(to_z3(c) for c in params[2:])
                    g["log"] = g["log"] + [("sgr", params[0], tuple(params[2:]))]
        elif priv == "?" and fin in "hl" and len(params) == 1:
            if params[0] == 25:
                g["vis"] = z3.BoolVal(fin == "h")
            elif params[0] == 2026:
                g["sync"] = z3.BoolVal(fin == "h")
            g["log"] = g["log"] + [("mode", params[0], fin)]
        elif fin in "JK" and priv == "":
            g["log"] = g["log"] + [("erase", fin, tuple(params))]
        else:
            raise Unsupported(f"CSI {priv}{params}{fin}")

    def command(self, which, keys):
        """APC / OSC / DCS string complete"""
        g = self.g
        g["last_nl"] = z3.BoolVal(False)
        g["log"] = g["log"] + [(which, list(keys))]
        if which == "apc" and all(isinstance(x, str) for x in keys):
            text = "".join(keys)
            ctrl = text.split(";")[0][1:].split(",")
            if text.startswith("G") and "a=d" in ctrl:
                self.kitty_delete(ctrl)
        handler = g.get("on_command")
        if handler is not None:
            handler(self, which, keys)
            return
        if which == "osc":
            text = "".join(x for x in keys if isinstance(x, str))
            if text.startswith("1337;File="):
                self.iterm2_file(keys)

    def kitty_delete(self, ctrl):
        """kitty graphics `a=d`: with d=C / d=c every placement that covers the cursor cell is removed.  The machine keeps, of all
        placements made so far, only the lowest row any of them reaches (`img_bottom`, exclusive): a delete-at-cursor on a row at or
        below it removes nothing of this output; anything else would delete (part of) the picture just placed."""
        g = self.g
        d = next((c[2:] for c in ctrl if c.startswith("d=")), "a")
        if d in ("C", "c"):
            if g.get("img_bottom") is not None:
                self.oblige("C01:delete-at-cursor-removes-nothing-this-output-has-placed", to_z3(g["row"]) >= to_z3(g["img_bottom"]), prop="C01", kind="geometry")
        elif d in ("A", "a"):
            if g.get("img_bottom") is not None:
                self.oblige("C01:delete-all-after-a-placement-of-this-output", False, prop="C01", kind="geometry")

    def iterm2_file(self, keys):
        """OSC 1337 ; File = k=v;k=v... : <base64> ST  (inline image).  Places width x height cells at the cursor and moves
        the cursor to the last line just past the image, unless doNotMoveCursor=1 (konsole)."""
        g = self.g
        items = list(keys)
        head = "1337;File="
        n = 0
        while n < len(items) and isinstance(items[n], str) and "".join(items[:n + 1]) == head[:n + 1]:
            n += 1
        items = items[n:]
        ctrl, cur_key, cur_val, state, payload = {}, "", [], "key", []
        for i, x in enumerate(items):
            if x == ":" and state in ("key", "val"):
                payload = items[i + 1:]
                break
            if state == "key":
                if x == "=":
                    state = "val"
                elif isinstance(x, str):
                    cur_key += x
                else:
                    raise Unsupported("symbolic piece in an iTerm2 key")
            elif x == ";":
                ctrl[cur_key] = cur_val
                cur_key, cur_val, state = "", [], "key"
            else:
                cur_val.append(x)
        if cur_key:
            ctrl[cur_key] = cur_val

        def val(k):
            v = ctrl.get(k)
            if v is None:
                return None
            if len(v) == 1 and isinstance(v[0], IntDec):
                return v[0].v
            if all(isinstance(c, str) for c in v):
                t = "".join(v)
                return int(t) if t.isdigit() else t
            raise Unsupported(f"iTerm2 value of {k}")
        w, h, size = val("width"), val("height"), val("size")
        self.oblige("iterm2:inline-image-with-width,height,size", z3.BoolVal(w is not None and h is not None and size is not None and val("inline") == 1))
        if w is None or h is None:
            return
        pl = [x for x in payload if not (isinstance(x, str) and x == "")]
        if len(pl) == 1 and isinstance(pl[0], Payload) and pl[0].decoded_len is not None and size is not None:
            # C03: the size= key equals the number of bytes that were base64-encoded
            self.oblige("C03:size-key=decoded-payload-length", to_z3(size) == to_z3(pl[0].decoded_len), prop="C03", kind="protocol")
        else:
            self.oblige("C03:payload-is-one-base64-text", False, prop="C03", kind="protocol")
        g["iterm2"] = g.get("iterm2", []) + [dict(width=w, height=h, size=size, keys={k: val(k) for k in ctrl},
                                                     payload=pl[0] if len(pl) == 1 else None)]
        moves = val("doNotMoveCursor") != 1
        if not moves:
            self.placement(Placement("iterm2", w, h, moves_cursor=False))
        else:
            c0 = self.ncol()
            self.oblige("never-wraps", c0 + to_z3(w) <= to_z3(g["TW"]), kind="geometry")
            g["img"] = (g["row"], g["row"] + h, c0, c0 + w)
            g["placements"] = g.get("placements", 0) + 1
            g["bottom"] = Max(g["bottom"], g["row"] + h - 1)        # scrolls like height-1 newlines if needed
            g["irregular"] = If(to_z3(h) > 1, True, g["irregular"])
            g["row"] = g["row"] + h - 1
            g["col"] = c0 + w
            g["line_w"] = g["line_w"] + w
            g["written"] = g["written"] + w

    def cond(self, it):
        # Cond(c, ts): effect of ts when c, nothing otherwise.  Implemented by running ts on a copy and merging.
        before = dict(self.g)
        sub = VT(self.eng, self.st, self.key, self.tag, self.line_pred, self.premise + [to_z3(it.c)])
        sub.g = dict(self.g)
        sub.feed(it.ts)
        after = sub.g
        if after["parser"] != before["parser"]:
            raise Unsupported("conditional piece changes the parser state")
        merged = dict(before)
        for k, v in after.items():
            if k in ("log", "parser", "cmd_open", "interrupted", "TW", "TH", "line_pred", "on_command", "on_block", "on_pblock", "on_placement", "glyphs", "placements"):
                continue
            if k not in before or isinstance(v, (tuple, dict)) or isinstance(before[k], (tuple, dict)):
                if k in before and v is before[k]:
                    continue
                if k == "img" and k in before and before[k] is not None and v is not None:
                    merged[k] = tuple(If(to_z3(it.c), a_, b_) for a_, b_ in zip(v, before[k]))
                    continue
                raise Unsupported(f"conditional piece changes structured terminal state {k!r}")
            if v is not before.get(k):
                if v is None or before.get(k) is None:
                    raise Unsupported(f"conditional piece sets terminal state {k!r} that has no value on the other side")
                merged[k] = If(to_z3(it.c), v, before[k])
        merged["log"] = before["log"] + [("cond", it.c, after["log"][len(before["log"]):])]
        self.g = merged

    def placement(self, p):
        """image layer of [row, row + r) x [col, col + c) := the image; kitty (C=1) leaves the cursor, iTerm2 moves it to the
        last line just past the image unless told not to"""
        g = self.g
        if g["parser"] != "ground":
            self.oblige("complete-control-sequence", False, detail="graphics command inside an unterminated sequence")
            g["parser"] = "ground"
        c0 = self.ncol()
        self.oblige("never-wraps", c0 + to_z3(p.c) <= to_z3(g["TW"]), kind="geometry")
        self.oblige("never-scrolls", to_z3(g["row"]) + to_z3(p.r) - 1 <= to_z3(g["bottom"]), kind="geometry")
        self.oblige("placement-size-positive", z3.And(to_z3(p.c) >= 1, to_z3(p.r) >= 1), kind="geometry")
        g["img"] = (g["row"], g["row"] + p.r, c0, c0 + p.c)
        g["img_bottom"] = (g["row"] + p.r) if g.get("img_bottom") is None else Max(g["img_bottom"], g["row"] + p.r)
        g["placements"] = g.get("placements", 0) + 1
        g["last_nl"] = z3.BoolVal(False)
        if p.moves_cursor:
            g["row"] = g["row"] + p.r - 1
            g["col"] = Min(c0 + p.c, g["TW"] - 1) if False else c0 + p.c
            g["line_w"] = g["line_w"] + p.c
            g["written"] = g["written"] + p.c
            g["irregular"] = If(to_z3(p.r) > 1, True, g["irregular"]) if False else g["irregular"]
        g["log"] = g["log"] + [("placement", p)]
        if g.get("on_placement") is not None:
            g["on_placement"](self, p)

    def pblock(self, b):
        """contract of Padding.pad (C05 placement): occupies rows [row, row+PH) x cols [0, PW) from column 0"""
        g = self.g
        if g["parser"] != "ground":
            raise Unsupported("block inside a control sequence")
        PW, PH = b.l + b.w + b.r, b.t + b.h + b.b
        if b.sep is not None:
            # the newlines of the padded output were replaced: spell the output out (contract of Padding.pad) and interpret it
            sep = b.sep
            g["arow"], g["acol"] = g["row"] + b.t, g["col"] + b.l
            pieces = [Rep(TS([Text(PW, " ")] + sep.items), b.t), Text(b.l, " "),
                      Block(b.id, b.w, b.h, sep=TS([Text(b.r, " ")] + sep.items + [Text(b.l, " ")])), Text(b.r, " "),
                      Rep(TS(sep.items + [Text(PW, " ")]), b.b)]
            for p_ in pieces:
                self.piece(p_)
            return
        if g.get("on_pblock") is not None:
            g["on_pblock"](self, b)
        self.oblige("padded-render-starts-at-column-0", z3.Or(to_z3(g["col"]) == 0, PH == 1), kind="geometry")
        self.oblige("never-wraps", to_z3(g["col"]) + PW <= to_z3(g["TW"]), kind="geometry")
        g["arow"], g["acol"] = g["row"] + b.t, If(PH == 1, g["col"], 0) + b.l
        g["bottom"] = Max(g["bottom"], g["row"] + PH - 1)
        g["row"] = g["row"] + PH - 1
        g["col"] = If(PH == 1, g["col"], 0) + PW
        g["nl"] = g["nl"] + PH - 1
        g["sgr_default"] = z3.BoolVal(True)
        g["last_nl"] = z3.BoolVal(False)
        g["log"] = g["log"] + [("pblock", b)]

    def block(self, b):
        g = self.g
        if g["parser"] != "ground":
            raise Unsupported("block inside a control sequence")
        if g.get("on_block") is not None:
            g["on_block"](self, b)
        c0 = g["col"]
        self.block_line(b, z3.IntVal(0))
        hm1 = b.h - 1
        body = TS(b.sep.items + [("__blkline__", b)])
        self.rep(body, hm1, blk=b)
        # the separator must bring the cursor back to the block's left column, one row down (a rectangle, not a staircase)
        g1 = self.last_rep_first
        self.oblige("block-lines-left-aligned", z3.Implies(to_z3(hm1) >= 1, z3.And(to_z3(g1["blk_col"]) == to_z3(c0), to_z3(g1["row"]) == to_z3(g["row"]) + 1)),
                    kind="geometry")

    def block_line(self, b, idx):
        g = self.g
        w = to_z3(b.w) if not isinstance(b.w, int) else b.w
        self.oblige("never-wraps", to_z3(g["col"]) + w <= to_z3(g["TW"]), kind="geometry")
        g["blk_col"] = If(to_z3(g["blk_col"]) == -1, g["col"], -2)   # -2: two blocks on one line
        g["blk_line"] = idx
        g["blk_id"] = to_z3(b.id) if not isinstance(b.id, int) else z3.IntVal(b.id)
        g["col"] = g["col"] + w
        g["line_w"] = g["line_w"] + w
        g["sgr_default"] = z3.BoolVal(True)
        g["last_nl"] = z3.BoolVal(False)
        g["log"] = g["log"] + [("blkline", b.id, idx)]

    def rep(self, body, n, blk=None):
        """closed form for n >= 0 repetitions of `body` (vertical movement by newlines only)"""
        g0 = dict(self.g)
        if g0["parser"] != "ground":
            raise Unsupported("repetition inside a control sequence")
        nz = to_z3(n) if not isinstance(n, int) else z3.IntVal(n)
        eng = self.eng

        def run_once(start, premise, idx_of_iter):
            sub = VT(eng, self.st, self.key, self.tag + "/rep", self.line_pred, self.premise + premise)
            sub.g = dict(start)
            for it in body.items:
                if isinstance(it, tuple) and it[0] == "__blkline__":
                    sub.block_line(it[1], idx_of_iter + 1)
                else:
                    sub.piece(it)
            if sub.g["parser"] != "ground":
                raise Unsupported("repetition body ends inside a control sequence")
            return sub.g
        # first iteration from the actual state
        k = eng.sym_int("rep_k")
        g1 = run_once(g0, [nz >= 1], z3.IntVal(0))
        self.last_rep_first = g1
        nl_per = z3.simplify(to_z3(g1["nl"]) - to_z3(g0["nl"]))
        if not z3.is_int_value(nl_per):
            raise Unsupported("repetition body with a symbolic number of newlines")
        m = nl_per.as_long()
        for it in ast_walk_pieces(body):
            if isinstance(it, str) and re.search(r"\x1b\[[0-9]*[AB]", it):
                raise Unsupported("vertical cursor movement inside a repetition")
        if m == 0:
            # horizontal repetition: every iteration advances by the same amount
            adv = z3.simplify(to_z3(g1["col"]) - to_z3(g0["col"]))
            gen = dict(g0)
            gen["col"] = g0["col"] + k * adv
            for key in ("line_w", "written", "skipped"):
                gen[key] = g0[key] + k * z3.simplify(to_z3(g1[key]) - to_z3(g0[key]))
            g2 = run_once(gen, [nz >= 2, k >= 1, k < nz], k)
            self.oblige("rep/advance-uniform", z3.Implies(z3.And(nz >= 2, k >= 1, k < nz), to_z3(g2["col"]) - to_z3(gen["col"]) == adv))
            out = dict(g0)
            out["col"] = g0["col"] + nz * adv
            for key in ("line_w", "written", "skipped"):
                out[key] = g0[key] + nz * z3.simplify(to_z3(g1[key]) - to_z3(g0[key]))
            for key in ("sgr_default", "vis", "sync", "last_nl", "ech_to", "blk_col", "blk_line", "blk_id", "irregular", "erased_to"):
                out[key] = If(nz >= 1, g1[key], g0[key])
            out["log"] = g0["log"] + [("rep", n, g1["log"][len(g0["log"]):])]
            self.g = out
            return
        # vertical repetition: iteration j (j >= 1) starts where an iteration ends: absolute column, row + m per iteration
        gen = dict(g1)
        gen["row"] = g0["row"] + k * m
        gen["bottom"] = Max(g0["bottom"], g0["row"] + k * m)
        gen["nl"] = g0["nl"] + k * m
        gen["line_idx"] = g0["line_idx"] + k * m
        if blk is not None:
            gen["blk_line"] = k
        g2 = run_once(gen, [nz >= 2, k >= 1, k < nz], k)
        prem = z3.And(nz >= 2, k >= 1, k < nz)
        for key in ("col", "line_w", "written", "skipped", "blk_col", "sgr_default", "irregular", "ech_to", "blk_id", "erased_to"):
            self.oblige(f"rep/fixpoint:{key}", z3.Implies(prem, to_z3(g2[key]) == to_z3(g1[key])))
        out = dict(g0)
        out["row"] = g0["row"] + nz * m
        out["bottom"] = Max(g0["bottom"], g0["row"] + nz * m)
        out["nl"] = g0["nl"] + nz * m
        out["line_idx"] = g0["line_idx"] + nz * m
        for key in ("col", "line_w", "written", "skipped", "blk_col", "blk_id", "sgr_default", "vis", "sync", "last_nl", "ech_to", "irregular", "erased_to"):
            out[key] = If(nz >= 1, g1[key], g0[key])
        out["blk_line"] = If(nz >= 1, (nz if blk is not None else g1["blk_line"]), g0["blk_line"])
        out["log"] = g0["log"] + [("rep", n, g1["log"][len(g0["log"]):])]
        self.g = out

    def finish(self):
        """end of the string: the last (unterminated) line is complete"""
        if self.line_pred is not None:
            self.oblige("line", self.line_pred(self.acct(), True), kind="line")
        return self


def ast_walk_pieces(ts):
    for it in ts.items:
        yield it
        if isinstance(it, (Rep, Cond)):
            yield from ast_walk_pieces(it.ts)
