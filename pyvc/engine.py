"""pyvc engine: forward, path-splitting symbolic execution of real Python function ASTs (DESIGN 2).

Outcomes of statements: (kind, value, state) with kind in normal/return/raise/break/continue.
Expressions return [(value, state)]; exceptions raised inside expressions are collected on a
per-statement raise stack.  Anything outside the subset raises Unsupported (-> UNDECIDED).
"""
import ast
import itertools
import z3
from .values import (Unsupported, Ref, EnumV, ExcVal, Opaque, Rec, SeqV, ClassV, Closure, Bound, Fn, Namespace,
                     is_sym, to_z3, as_arith, And, Or, Not, If, Max, Min, Eq, floordiv, mod, truediv, ceil_, floor_,
                     _ROUND)
from . import tstr
from .tstr import TS

BUILTIN_EXC = {
    "BaseException": None, "Exception": "BaseException", "KeyboardInterrupt": "BaseException",
    "GeneratorExit": "BaseException", "SystemExit": "BaseException",
    "ValueError": "Exception", "TypeError": "Exception", "AttributeError": "Exception", "KeyError": "LookupError",
    "IndexError": "LookupError", "LookupError": "Exception", "StopIteration": "Exception", "OSError": "Exception",
    "RuntimeError": "Exception", "NotImplementedError": "RuntimeError", "ZeroDivisionError": "ArithmeticError",
    "ArithmeticError": "Exception", "AssertionError": "Exception", "UnicodeDecodeError": "ValueError",
    "FileNotFoundError": "OSError", "PermissionError": "OSError", "IsADirectoryError": "OSError",
    "NameError": "Exception", "UnboundLocalError": "NameError", "Warning": "Exception", "UserWarning": "Warning",
    "termios.error": "Exception", "Boom": "Exception", "EOFError": "Exception", "UnicodeError": "ValueError",
}


class SymbolicFilter(Exception):
    pass


class PathEnded(Exception):
    """evaluation of a lazily evaluated element raised (the exception path is already recorded): this value path ends"""


class State:
    __slots__ = ("frames", "pc", "heap", "ghost", "trace")

    def __init__(self, env=None, pc=None, heap=None, ghost=None):
        self.frames = [dict(env or {})]
        self.pc = list(pc or [])
        self.heap = heap or {}
        self.ghost = ghost or {}
        self.trace = []

    @property
    def env(self):
        return self.frames[-1]

    def fork(self, extra=None):
        s = State.__new__(State)
        s.frames = [dict(f) for f in self.frames]
        s.pc = list(self.pc)
        s.heap = {k: (list(v) if isinstance(v, list) else dict(v) if isinstance(v, dict) else v)
                  for k, v in self.heap.items()}
        s.ghost = dict(self.ghost)
        s.trace = list(self.trace)
        if extra is not None:
            s.pc.append(extra)
        return s

    # heap helpers
    def new(self, cls, fields=None, tag=None):
        r = Ref(cls, tag)
        self.heap[r.id] = dict(fields or {})
        return r

    def new_list(self, items):
        r = Ref("list")
        self.heap[r.id] = list(items)
        return r

    def H(self, ref):
        return self.heap[ref.id]

    def lookup(self, name):
        for f in reversed(self.frames):
            if name in f:
                return f[name]
        raise KeyError(name)


class Obligation:
    def __init__(self, name, pc, goal, prop=None, meta=None):
        self.name, self.pc, self.goal, self.prop, self.meta = name, list(pc), goal, prop, meta or {}


class _Unbound:
    def __repr__(self):
        return "<unbound>"


UNBOUND = _Unbound()


class Engine:
    def __init__(self, genv=None, classes=None, methods=None, attrs=None, exc_parents=None, label="", prop=None):
        self.genv = dict(genv or {})
        self.classes = dict(classes or {})     # name -> tuple of base names (for isinstance / issubclass)
        self.methods = dict(methods or {})     # (cls, name) -> Fn-like callable(eng, st, recv, args, kwargs)
        self.attrs = dict(attrs or {})         # (cls, name) -> callable(eng, st, recv) -> [(v, st)]   (properties)
        self.closed_classes = set()            # classes whose attribute model is complete (missing -> AttributeError)
        # for objects of external libraries the model is complete only for the names listed here (e.g. `filename` of a PIL image that
        # was not opened from a file); any other unknown name is outside the model (-> undecided), never an AttributeError
        self.closed_only = {}
        self.exc_parents = dict(BUILTIN_EXC)
        self.exc_parents.update(exc_parents or {})
        self.obligations = []
        self.rstack = [[]]
        self.exc_stack = []
        self.finally_depth = 0
        self.try_depth = 0
        self.fresh = itertools.count()
        self.nfork = 0
        self.label = label
        self.prop = prop
        self.invariants = {}   # loop ordinal (source order of For/While in the function) -> LoopSpec
        self.loop_ids = {}
        self.on_yield = None
        self.feas_timeout = 2000
        self.stats = {"feasible_calls": 0, "paths": 0}
        self.round_axioms = []
        self.list_repeat_hook = None
        self.default_replay = None
        self.inv_props = None
        self.async_faults = []      # e.g. ["KeyboardInterrupt"]: injected before every statement outside `finally`
        self.globals_obj = None     # Ref of the heap object holding the mutable module globals of the function's module
        self.theory = set()         # names of Rec kinds that are values of a specification theory: operations dispatch to methods[(kind, op)]

    # ------------------------------------------------------------------ utilities
    def oblige(self, name, st, goal, prop=None, **meta):
        if goal is True:
            goal = z3.BoolVal(True)
        if goal is False:
            goal = z3.BoolVal(False)
        props = [prop or self.prop]
        if st.ghost.get("@over_approx"):
            meta = dict(meta, over_approx=",".join(st.ghost["@over_approx"]))
        if meta.get("kind") == "invariant" and prop is None and self.inv_props:
            props = list(self.inv_props)       # an invariant that carries clauses of several properties is checked under each
        for pr in props:
            if self.default_replay and not meta.get("replay"):
                dr = self.default_replay.get(pr) if isinstance(self.default_replay, dict) else self.default_replay
                if dr:
                    meta = dict(meta, replay=dr)
            self.obligations.append(Obligation(f"{self.label}/{name}#{len(self.obligations)}", st.pc + self.round_axioms, goal, pr, dict(meta)))

    def cover(self, name, st, cond):
        """reachability clause: `cond` must be possible on this path (guards the obligations next to it against vacuity)"""
        self.obligations.append(Obligation(f"{self.label}/cover:{name}#{len(self.obligations)}", st.pc + self.round_axioms, cond, self.prop, {"kind": "cover"}))

    def qoblige(self, name, st, goals, **meta):
        """prove forall-goals: skolemise each at a fresh constant, instantiate the assumed forall-facts of the path there"""
        for gi, g in enumerate(goals):
            k0 = self.sym_int("sk")
            s2 = st.fork()
            # instantiation at the skolem constant and at the terms the path registered (e.g. the key just looked up)
            for term in [k0] + list(st.ghost.get("Qterms", [])):
                s2.pc += [to_z3(q(term)) for q in st.ghost.get("Q", [])]
            self.oblige(f"{name}/forall{gi}", s2, g(k0), **meta)

    def feasible(self, pc):
        self.stats["feasible_calls"] += 1
        s = z3.Solver()
        s.set("timeout", self.feas_timeout)
        s.add(*pc)
        s.add(*self.round_axioms)
        return s.check() != z3.unsat

    def fork(self, st, cond=None):
        self.nfork += 1
        return st.fork(cond)

    def split(self, st, cond):
        """-> [(True, st_true), (False, st_false)] restricted to feasible sides; cond z3 Bool or python bool"""
        if not is_sym(cond):
            return [(bool(cond), st)]
        tie = getattr(self, "_float_ties", {}).get(cond.get_id()) if hasattr(cond, "get_id") else None
        if tie is not None:
            # an order comparison of floats under A-FLOAT's tie rule: three explicit cases instead of a nested if-then-else (the
            # non-linear queries are far more stable that way): equal (both outcomes), and the two strict orders
            a_, b_, r_ = tie
            out = []
            for side, cs in ((True, [a_ == b_]), (False, [a_ == b_]), (True, [a_ != b_, r_]), (False, [a_ != b_, z3.Not(r_)])):
                s2 = self.fork(st)
                s2.pc += cs
                if self.feasible(s2.pc):
                    out.append((side, s2))
            return out
        cond = z3.simplify(cond)
        if z3.is_true(cond):
            return [(True, st)]
        if z3.is_false(cond):
            return [(False, st)]
        out = []
        for side, c in ((True, cond), (False, z3.Not(cond))):
            s2 = self.fork(st, c)
            if self.feasible(s2.pc):
                out.append((side, s2))
        return out

    def raise_(self, exc, st, fault=False, in_cleanup_too=False):
        if fault and self.finally_depth and not in_cleanup_too:
            return  # faults inside the function's own clean-up are excluded (C07/C13 statements)
        if isinstance(exc, str):
            exc = ExcVal(exc)
        self.nfork += 1
        if fault:
            st.ghost["faulted"] = True          # an injected fault: the run is an interrupted one from here on
        st.ghost["raised_in_try"] = self.try_depth      # 0: raised outside every try body of the function under proof
        self.rstack[-1].append((exc, st))

    def sym_int(self, name):
        return z3.Int(f"{name}!{next(self.fresh)}")

    def sym_bool(self, name):
        return z3.Bool(f"{name}!{next(self.fresh)}")

    def sym_real(self, name):
        return z3.Real(f"{name}!{next(self.fresh)}")

    def issubclass(self, c, base):
        if c == base:
            return True
        seen = set()
        todo = [c]
        while todo:
            x = todo.pop()
            if x == base:
                return True
            if x in seen:
                continue
            seen.add(x)
            p = self.exc_parents.get(x)
            if p:
                todo.append(p)
            todo += list(self.classes.get(x, ()))
        return False

    def truth(self, v):
        if is_sym(v):
            if z3.is_bool(v):
                return v
            if z3.is_int(v) or z3.is_real(v):
                return v != 0
            if z3.is_string(v):
                return z3.Length(v) > 0
            if z3.is_bv(v):
                return v != 0
            raise Unsupported(f"truth of sort {v.sort()}")
        if isinstance(v, (Ref,)):
            if v.cls == "list":
                return None  # needs heap; handled by caller
            return True
        if isinstance(v, (EnumV,)):
            return bool(v.value) if isinstance(v.value, (int, str, float)) and not isinstance(v.value, bool) and v.cls in self.int_enums else True
        if isinstance(v, (ClassV, Closure, Bound, Fn, Namespace, ExcVal)):
            return True
        if isinstance(v, Rec):
            return v.valid
        if isinstance(v, SeqV):
            return to_z3(v.length) > 0 if is_sym(v.length) else v.length > 0
        if isinstance(v, TS):
            return v.truth()
        if isinstance(v, Opaque):
            raise Unsupported(f"truth of {v!r}")
        return bool(v)

    int_enums = {"HAlign", "VAlign"}

    def truth_st(self, v, st):
        if isinstance(v, Ref):
            for c in self.mro(v.cls):
                if (c, "__bool__") in self.methods:
                    (r, _), = self.methods[(c, "__bool__")](self, st, v, (), {})
                    return r
        if isinstance(v, Ref) and v.cls in ("list", "dict", "set", "frozenset"):
            h = st.H(v)
            if isinstance(h, list):
                return len(h) > 0
            if "len" in h:
                return to_z3(h["len"]) > 0 if is_sym(h["len"]) else h["len"] > 0
            if "@items" in h:
                return len(h["@items"]) > 0
            raise Unsupported("truth of container")
        return self.truth(v)

    # ------------------------------------------------------------------ expressions
    def ev(self, e, st):
        m = getattr(self, "ev_" + type(e).__name__, None)
        if m is None:
            raise Unsupported(f"expression {type(e).__name__} at line {getattr(e, 'lineno', '?')}")
        return m(e, st)

    def ev1(self, e, st):
        r = self.ev(e, st)
        if len(r) != 1:
            raise Unsupported(f"expected single-path expression: {ast.unparse(e)[:60]} ({len(r)} paths)")
        return r[0]

    def ev_seq(self, exprs, st):
        """evaluate expressions left-to-right -> [(tuple_of_values, state)] (Starred spliced)"""
        outs = [((), st)]
        for el in exprs:
            nxt = []
            for acc, s in outs:
                if isinstance(el, ast.Starred):
                    for v, s2 in self.ev(el.value, s):
                        nxt.append((acc + tuple(self.iter_concrete(v, s2)), s2))
                else:
                    for v, s2 in self.ev(el, s):
                        nxt.append((acc + (v,), s2))
            outs = nxt
        return outs

    def iter_concrete(self, v, st):
        if isinstance(v, (tuple, list)):
            return list(v)
        if isinstance(v, Rec):
            return list(v.astuple())
        if isinstance(v, Ref) and isinstance(st.H(v), list):
            return list(st.H(v))
        if isinstance(v, SeqV) and not is_sym(v.length):
            return [v.elem(i, st) for i in range(v.length)]
        if isinstance(v, (str, bytes, range, frozenset, set, dict)):
            return list(v)
        raise Unsupported(f"iteration over {v!r}")

    def ev_Constant(self, e, st):
        return [(e.value, st)]

    def ev_Name(self, e, st):
        for f in reversed(st.frames):
            if e.id in f:
                if f[e.id] is UNBOUND:
                    self.raise_(ExcVal("NameError", (e.id,)), st)
                    return []
                return [(f[e.id], st)]
        if self.globals_obj is not None and e.id in st.H(self.globals_obj):
            return [(st.H(self.globals_obj)[e.id], st)]
        if e.id in self.genv:
            return [(self.genv[e.id], st)]
        if e.id in BUILTINS:
            return [(Fn(BUILTINS[e.id], e.id), st)]
        if e.id in self.exc_parents:
            return [(ClassV(e.id), st)]
        raise Unsupported(f"unresolved name {e.id!r} (line {e.lineno})")

    def ev_Tuple(self, e, st):
        return self.ev_seq(e.elts, st)

    def ev_List(self, e, st):
        outs = []
        for vals, s in self.ev_seq(e.elts, st):
            s = self.fork(s)
            outs.append((s.new_list(vals), s))
        return outs

    def ev_Set(self, e, st):
        return [(frozenset(vals), s) for vals, s in self.ev_seq(e.elts, st)]

    def ev_Dict(self, e, st):
        if any(k is None for k in e.keys):
            # {..., **mapping, ...}: entries in source order, later ones win
            states = [({}, st)]
            for k, v in zip(e.keys, e.values):
                nxt = []
                for acc, s in states:
                    if k is None:
                        for m, s2 in self.ev(v, s):
                            if isinstance(m, Ref) and "@items" in s2.H(m):
                                nxt.append(({**acc, **s2.H(m)["@items"]}, s2))
                            elif isinstance(m, dict):
                                nxt.append(({**acc, **m}, s2))
                            else:
                                raise Unsupported(f"** of {m!r} in a dict display")
                    else:
                        for kv, s2 in self.ev(k, s):
                            for vv, s3 in self.ev(v, s2):
                                nxt.append(({**acc, kv: vv}, s3))
                states = nxt
            outs = []
            for acc, s in states:
                s = self.fork(s)
                outs.append((s.new("dict", {"@items": acc}), s))
            return outs
        outs = []
        for ks, s in self.ev_seq(e.keys, st):
            for vs, s2 in self.ev_seq(e.values, s):
                s2 = self.fork(s2)
                r = s2.new("dict", {"@items": dict(zip(ks, vs))})
                outs.append((r, s2))
        return outs

    def ev_DictComp(self, e, st):
        """{k: v for x in <concrete iterable>}: evaluated entry by entry (an entry that raises ends that path)"""
        if len(e.generators) != 1 or e.generators[0].ifs:
            raise Unsupported("dict comprehension with filters / nesting")
        gen = e.generators[0]
        outs = []
        for src, s in self.ev(gen.iter, st):
            states = [({}, s)]
            for it in self.iter_concrete(src, s):
                nxt = []
                for acc, s1 in states:
                    s2 = self.fork(s1)
                    s2.frames.append({})
                    self.assign(gen.target, it, s2)
                    for kv, s3 in self.ev(e.key, s2):
                        for vv, s4 in self.ev(e.value, s3):
                            s4 = self.fork(s4)
                            s4.frames.pop()
                            nxt.append(({**acc, kv: vv}, s4))
                states = nxt
            for acc, s1 in states:
                s1 = self.fork(s1)
                outs.append((s1.new("dict", {"@items": acc}), s1))
        return outs

    def ev_JoinedStr(self, e, st):
        outs = [([], st)]
        for p in e.values:
            nxt = []
            for acc, s in outs:
                if isinstance(p, ast.Constant):
                    nxt.append((acc + [p.value], s))
                else:
                    if p.format_spec is not None or p.conversion not in (-1,):
                        spec = None
                        if p.conversion == -1 and isinstance(p.format_spec, ast.JoinedStr) and len(p.format_spec.values) == 1 \
                                and isinstance(p.format_spec.values[0], ast.Constant):
                            spec = p.format_spec.values[0].value
                        for v, s2 in self.ev(p.value, s):
                            if spec == "d" and (isinstance(v, (bool, int)) or (is_sym(v) and (z3.is_bool(v) or z3.is_int(v)))):
                                nxt.append((acc + [as_arith(v)], s2))      # {x:d}: decimal rendering of an int / bool
                            else:
                                nxt.append((acc + [Opaque("formatted")], s2))
                        continue
                    for v, s2 in self.ev(p.value, s):
                        nxt.append((acc + [v], s2))
            outs = nxt
        return [(tstr.concat(parts), s) for parts, s in outs]

    def ev_Attribute(self, e, st):
        res = []
        for v, s in self.ev(e.value, st):
            res += self.getattr(v, e.attr, s)
        return res

    def getattr(self, v, name, s):
        if isinstance(v, Ref):
            h = s.H(v)
            if isinstance(h, dict) and name in h and not isinstance(h, list):
                hook = getattr(self, "read_hooks", {}).get((v.cls, name))
                if hook is not None:
                    hook(self, s, v)            # a contract may watch reads of a field (e.g. to state WHEN it may be looked at)
                return [(h[name], s)]
            for c in self.mro(v.cls):
                if (c, name) in self.attrs:
                    return self.attrs[(c, name)](self, s, v)
                if (c, name) in self.methods:
                    return [(Bound(v, name), s)]
            inh = h.get("@inherit") if isinstance(h, dict) else None
            if inh is not None and name in inh:
                # not in the object's own namespace: the nearest ancestor that has it, if any (Python attribute lookup)
                present, val = inh[name]
                out = []
                for side, s2 in self.split(s, present):
                    if side:
                        out.append((val, s2))
                    else:
                        self.raise_(ExcVal("AttributeError", (name,)), s2)
                return out
            if v.cls in self.closed_classes and (v.cls not in self.closed_only or name in self.closed_only[v.cls]):
                self.raise_(ExcVal("AttributeError", (name,)), s)
                return []
            if isinstance(h, list) or (v.cls == "dict" and "@items" in h):
                return [(Bound(v, name), s)]
            raise Unsupported(f"attribute {name!r} of {v!r}")
        if isinstance(v, Namespace):
            if name in v.d:
                return [(v.d[name], s)]
            raise Unsupported(f"{v!r} has no {name!r}")
        if isinstance(v, ClassV):
            if name in ("__name__", "__qualname__"):
                return [(v.name, s)]
            if name in v.attrs:
                return [(v.attrs[name], s)]
            for c in self.mro(v.name):
                if ("type:" + c, name) in self.methods:
                    return [(Bound(v, name), s)]
            raise Unsupported(f"class attribute {v.name}.{name}")
        if isinstance(v, Rec):
            if v.name in self.theory:
                return [(Bound(v, name), s)]
            if name in v.f:
                return [(v.f[name], s)]
            if (v.name, name) in self.attrs:
                return self.attrs[(v.name, name)](self, s, v)
            raise Unsupported(f"record {v.name} has no {name}")
        if isinstance(v, EnumV):
            if name == "value":
                return [(v.value, s)]
            if name == "name":
                return [(v.name, s)]
            if isinstance(v.value, tuple) and (v.cls, name) in self.attrs:
                return self.attrs[(v.cls, name)](self, s, v)
            raise Unsupported(f"enum attribute {name}")
        if isinstance(v, ExcVal):
            if name == "args":
                return [(v.args, s)]
            if name == "__cause__":
                return [(v.cause, s)]
            raise Unsupported(f"exception attribute {name}")
        if isinstance(v, (str, TS, bytes, tuple, SeqV, frozenset)) or is_sym(v) or isinstance(v, (int, float)):
            return [(Bound(v, name), s)]
        if v is None:
            self.raise_(ExcVal("AttributeError", (name,)), s)
            return []
        raise Unsupported(f"attribute {name!r} of {v!r}")

    def mro(self, cls):
        out, todo = [], [cls]
        while todo:
            c = todo.pop(0)
            if c in out:
                continue
            out.append(c)
            todo += list(self.classes.get(c, ()))
        return out

    def ev_Subscript(self, e, st):
        res = []
        for v, s in self.ev(e.value, st):
            if isinstance(e.slice, ast.Slice):
                for (lo, hi, step), s2 in self.ev_slice(e.slice, s):
                    res += self.getslice(v, lo, hi, step, s2)
            else:
                for i, s2 in self.ev(e.slice, s):
                    res += self.getitem(v, i, s2)
        return res

    def ev_slice(self, sl, st):
        outs = [((), st)]
        for part in (sl.lower, sl.upper, sl.step):
            nxt = []
            for acc, s in outs:
                if part is None:
                    nxt.append((acc + (None,), s))
                else:
                    for v, s2 in self.ev(part, s):
                        nxt.append((acc + (v,), s2))
            outs = nxt
        return outs

    def getslice(self, v, lo, hi, step, s):
        if isinstance(v, Rec) and v.name in self.theory:
            return self.theory_op(v, "__getslice__", (lo, hi, step), s)
        if step is not None:
            if all(not is_sym(x) for x in (lo, hi, step)) and isinstance(v, (tuple, str, bytes, list)):
                return [(v[lo:hi:step], s)]
            raise Unsupported("slice step")
        if isinstance(v, Rec):
            v = v.astuple()
        if isinstance(v, Ref) and isinstance(s.H(v), list):
            if is_sym(lo) or is_sym(hi):
                raise Unsupported("symbolic slice of concrete list")
            s = self.fork(s)
            return [(s.new_list(s.H(v)[lo:hi]), s)]
        if isinstance(v, (tuple, str, bytes)) and not is_sym(lo) and not is_sym(hi):
            return [(v[lo:hi], s)]
        if isinstance(v, SeqV):
            n = v.length
            lo = 0 if lo is None else If(to_z3(lo) < 0, Max(n + lo, 0), Min(lo, n)) if is_sym(lo) or is_sym(n) else (max(n + lo, 0) if lo < 0 else min(lo, n))
            hi = n if hi is None else If(to_z3(hi) < 0, Max(n + hi, 0), Min(hi, n)) if is_sym(hi) or is_sym(n) else (max(n + hi, 0) if hi < 0 else min(hi, n))
            ln = Max(hi - lo, 0)
            return [(SeqV(ln, lambda k, st_, lo=lo, v=v: v.elem(lo + k, st_), "slice"), s)]
        if isinstance(v, TS):
            return [(v.slice(lo, hi), s)]
        if is_sym(v) and z3.is_string(v):
            from . import rxops
            n = z3.Length(v)
            known = rxops.piece_slice(s, v, lo, hi)
            if known is not None:
                return [(known, s)]
            if lo is None and hi is not None:
                known = rxops.lookup(s, v, hi, "prefix")
                if known is not None:
                    return [(known, s)]
            if hi is None and lo is not None:
                known = rxops.lookup(s, v, lo, "suffix")
                if known is not None:
                    return [(known, s)]
            clamp = lambda x, d: d if x is None else z3.If(to_z3(x) < 0, Max(n + x, 0), Min(x, n))
            lo2, hi2 = clamp(lo, z3.IntVal(0)), clamp(hi, n)
            return [(z3.SubString(v, lo2, Max(hi2 - lo2, 0)), s)]
        raise Unsupported(f"slice of {v!r}")

    def theory_op(self, v, name, args, s):
        f = self.methods.get((v.name, name))
        if f is None:
            raise Unsupported(f"{name} on a {v.name} value")
        return f(self, s, v, args, {})

    def getitem(self, v, i, s):
        if isinstance(v, Rec) and v.name in self.theory:
            return self.theory_op(v, "__getitem__", (i,), s)
        if isinstance(v, Rec):
            v = v.astuple()
        if isinstance(v, Ref):
            h = s.H(v)
            if isinstance(h, list):
                if is_sym(i):
                    return self.case_index(h, i, s)
                try:
                    return [(h[i], s)]
                except IndexError:
                    self.raise_("IndexError", s)
                    return []
            for c in self.mro(v.cls):
                if (c, "__getitem__") in self.methods:
                    return self.methods[(c, "__getitem__")](self, s, v, (i,), {})
            if v.cls == "dict" and "@items" in h:
                if is_sym(i) and z3.is_string(i) and all(isinstance(k_, str) for k_ in h["@items"]):
                    # a symbolic string key: one path per key it may equal, KeyError otherwise
                    res = []
                    for k_, val_ in h["@items"].items():
                        s2 = self.fork(s, i == z3.StringVal(k_))
                        if self.feasible(s2.pc):
                            res.append((val_, s2))
                    s3 = self.fork(s, z3.And(*[i != z3.StringVal(k_) for k_ in h["@items"]]) if h["@items"] else z3.BoolVal(True))
                    if self.feasible(s3.pc):
                        self.raise_("KeyError", s3)
                    return res
                if is_sym(i):
                    raise Unsupported("symbolic dict key")
                if i in h["@items"]:
                    return [(h["@items"][i], s)]
                self.raise_(ExcVal("KeyError", (i,)), s)
                return []
            raise Unsupported(f"subscript of {v!r}")
        if isinstance(v, (tuple, str, bytes)):
            if is_sym(i):
                if isinstance(v, tuple):
                    return self.case_index(v, i, s)
                raise Unsupported("symbolic index into str")
            if isinstance(i, EnumV):
                i = i.value
            try:
                return [(v[i], s)]
            except IndexError:
                self.raise_("IndexError", s)
                return []
        if isinstance(v, SeqV):
            n = v.length
            if not is_sym(i) and not is_sym(n):
                if -n <= i < n:
                    return [(v.elem(i % n if n else 0, s), s)]
                self.raise_("IndexError", s)
                return []
            iz = to_z3(i)
            self.oblige("index-in-bounds", s, z3.And(iz >= 0, iz < to_z3(n)), kind="safety")
            return [(v.elem(iz, s), s)]
        if isinstance(v, dict):
            if is_sym(i):
                raise Unsupported("symbolic dict key")
            if i in v:
                return [(v[i], s)]
            self.raise_("KeyError", s)
            return []
        if isinstance(v, Namespace) and not is_sym(i):
            if i in v.d:
                return [(v.d[i], s)]
            self.raise_("KeyError", s)
            return []
        if is_sym(v) and z3.is_string(v):
            from . import rxops
            known = rxops.piece_index(s, v, i)
            if known is not None:
                return [(known, s)]
            n = z3.Length(v)
            iz = to_z3(i)
            self.oblige("index-in-bounds", s, z3.And(iz >= -n, iz < n), kind="safety")
            return [(z3.SubString(v, z3.If(iz < 0, n + iz, iz), 1), s)]
        if v is None:
            self.raise_(ExcVal("TypeError", ("'NoneType' object is not subscriptable",)), s)
            return []
        raise Unsupported(f"subscript of {v!r}")

    def case_index(self, seq, i, s):
        res = []
        n = len(seq)
        for k in range(n):
            s2 = self.fork(s, z3.Or(i == k, i == k - n))
            if self.feasible(s2.pc):
                res.append((seq[k], s2))
        s3 = self.fork(s, z3.Or(i >= n, i < -n))
        if self.feasible(s3.pc):
            self.raise_("IndexError", s3)
        return res

    def ev_UnaryOp(self, e, st):
        res = []
        for v, s in self.ev(e.operand, st):
            if isinstance(e.op, ast.Not):
                t = self.truth_st(v, s)
                res.append((Not(t), s))
            elif isinstance(e.op, ast.USub):
                res.append((-as_arith(v), s))
            elif isinstance(e.op, ast.UAdd):
                if isinstance(v, Ref):
                    for c in self.mro(v.cls):
                        if (c, "__pos__") in self.methods:
                            res += self.methods[(c, "__pos__")](self, s, v, (), {})
                            break
                    else:
                        raise Unsupported("unary + on object")
                else:
                    res.append((as_arith(v), s))
            elif isinstance(e.op, ast.Invert):
                if is_sym(v) and z3.is_bv(v):
                    res.append((~v, s))
                elif isinstance(v, int):
                    res.append((~v, s))
                else:
                    raise Unsupported("~ on non-bitvector")
            else:
                raise Unsupported("unary op")
        return res

    def ev_BinOp(self, e, st):
        res = []
        for a, s in self.ev(e.left, st):
            for b, s2 in self.ev(e.right, s):
                res += self.binop(e.op, a, b, s2)
        return res

    def binop(self, op, a, b, s):
        """-> [(value, state)]"""
        if isinstance(a, Rec) and a.name in self.theory:
            return self.theory_op(a, {ast.Add: "__add__", ast.Mult: "__mul__"}.get(type(op), "__binop__"), (b,), s)
        if isinstance(b, Rec) and b.name in self.theory:
            return self.theory_op(b, {ast.Add: "__radd__", ast.Mult: "__rmul__"}.get(type(op), "__rbinop__"), (a,), s)
        if isinstance(a, Rec) and a.name != "digits":
            a = a.astuple()
        if isinstance(b, Rec) and b.name != "digits":
            b = b.astuple()
        if isinstance(a, Ref) or isinstance(b, Ref):
            name = {ast.Or: "__or__", ast.BitOr: "__or__", ast.Add: "__add__", ast.Mult: "__mul__", ast.Sub: "__sub__", ast.BitAnd: "__and__"}.get(type(op))
            if isinstance(a, Ref) and isinstance(s.H(a), list) and isinstance(op, ast.Mult):
                if not is_sym(b) and isinstance(b, int):
                    s = self.fork(s)
                    return [(s.new_list(list(s.H(a)) * b), s)]
                if self.list_repeat_hook is None:
                    raise Unsupported("list * symbolic length")
                return self.list_repeat_hook(self, s, tuple(s.H(a)), b)
            if isinstance(a, Ref) and isinstance(b, Ref) and isinstance(s.H(a), list) and isinstance(s.H(b), list) and isinstance(op, ast.Add):
                s = self.fork(s)
                return [(s.new_list(s.H(a) + s.H(b)), s)]
            if isinstance(a, Ref) and name:
                for c in self.mro(a.cls):
                    if (c, name) in self.methods:
                        return self.methods[(c, name)](self, s, a, (b,), {})
            if isinstance(b, Ref) and name:
                rname = "__r" + name[2:]
                for c in self.mro(b.cls):
                    if (c, rname) in self.methods:
                        return self.methods[(c, rname)](self, s, b, (a,), {})
            raise Unsupported(f"binary op on object {a!r} {type(op).__name__} {b!r}")
        if isinstance(a, Opaque) or isinstance(b, Opaque):
            return [(Opaque("binop"), s)]
        # strings / terminal strings
        if (is_sym(a) and z3.is_string(a)) or (is_sym(b) and z3.is_string(b)):
            if isinstance(op, ast.Add) and all(isinstance(x, str) or (is_sym(x) and z3.is_string(x)) for x in (a, b)):
                zs = lambda x: z3.StringVal(x) if isinstance(x, str) else x
                return [(z3.Concat(zs(a), zs(b)), s)]
            raise Unsupported("operation on a symbolic string")
        if isinstance(a, (str, TS)) or isinstance(b, (str, TS)):
            if isinstance(a, TS) and isinstance(b, bytes):
                b = b.decode("latin1")
            if isinstance(b, TS) and isinstance(a, bytes):
                a = a.decode("latin1")
            try:
                return [(tstr.str_binop(op, a, b), s)]
            except tstr.PyRaise as ex:
                self.raise_(ex.exc, s)
                return []
        if isinstance(a, bytes) or isinstance(b, bytes):
            if not is_sym(a) and not is_sym(b) and not isinstance(a, (TS, tuple)) and not isinstance(b, (TS, tuple)):
                return [(self.py_binop(op, a, b), s)]
            # a byte string written to the terminal with symbolic parameters: same terminal effect as its latin-1 text
            a2 = a.decode("latin1") if isinstance(a, bytes) else a
            b2 = b.decode("latin1") if isinstance(b, bytes) else b
            try:
                return [(tstr.str_binop(op, a2, b2), s)]
            except tstr.PyRaise as ex:
                self.raise_(ex.exc, s)
                return []
        if isinstance(a, tuple) or isinstance(b, tuple):
            if isinstance(op, ast.Add) and isinstance(a, tuple) and isinstance(b, tuple):
                return [(a + b, s)]
            if isinstance(op, ast.Mult) and isinstance(a, tuple) and isinstance(b, int):
                return [(a * b, s)]
            raise Unsupported("tuple op")
        if isinstance(a, SeqV) or isinstance(b, SeqV):
            raise Unsupported("seq op")
        a, b = as_arith(a), as_arith(b)
        if (is_sym(a) and z3.is_bv(a)) or (is_sym(b) and z3.is_bv(b)):
            bv = lambda x: x if is_sym(x) else z3.BitVecVal(x, 32)
            a, b = bv(a), bv(b)
            t = {ast.BitAnd: lambda: a & b, ast.BitOr: lambda: a | b, ast.BitXor: lambda: a ^ b}.get(type(op))
            if t is None:
                raise Unsupported("bitvector op")
            return [(t(), s)]
        if not is_sym(a) and not is_sym(b):
            if isinstance(op, (ast.Div, ast.FloorDiv, ast.Mod)) and b == 0:
                self.raise_("ZeroDivisionError", s)
                return []
            return [(self.py_binop(op, a, b), s)]
        if isinstance(op, ast.Add):
            return [(a + b, s)]
        if isinstance(op, ast.Sub):
            return [(a - b, s)]
        if isinstance(op, ast.Mult):
            return [(a * b, s)]
        if isinstance(op, (ast.FloorDiv, ast.Div, ast.Mod)):
            bz = to_z3(b)
            out = []
            for nz, s2 in self.split(s, bz != 0):
                if not nz:
                    self.raise_("ZeroDivisionError", s2)
                    continue
                f = {ast.FloorDiv: floordiv, ast.Div: truediv, ast.Mod: mod}[type(op)]
                out.append((f(a, b), s2))
            return out
        if isinstance(op, ast.LShift) and not is_sym(a) and isinstance(a, int) and is_sym(b):
            self.oblige("shift-amount-in-[0,64]", s, z3.And(b >= 0, b <= 64), kind="safety")
            r = z3.IntVal(a << 64)
            for k_ in range(63, -1, -1):
                r = z3.If(b == k_, z3.IntVal(a << k_), r)
            return [(r, s)]
        if isinstance(op, ast.Pow):
            if not is_sym(b) and isinstance(b, int) and 0 <= b <= 4:
                r = 1
                for _ in range(b):
                    r = r * a
                return [(r, s)]
            raise Unsupported("symbolic power")
        raise Unsupported(f"binary op {type(op).__name__}")

    @staticmethod
    def py_binop(op, a, b):
        import operator as o
        f = {ast.Add: o.add, ast.Sub: o.sub, ast.Mult: o.mul, ast.Div: o.truediv, ast.FloorDiv: o.floordiv,
             ast.Mod: o.mod, ast.Pow: o.pow, ast.BitAnd: o.and_, ast.BitOr: o.or_, ast.BitXor: o.xor,
             ast.LShift: o.lshift, ast.RShift: o.rshift}[type(op)]
        return f(a, b)

    def ev_BoolOp(self, e, st):
        outs = []
        stop_on = isinstance(e.op, ast.Or)

        def rec(i, s):
            for v, s2 in self.ev(e.values[i], s):
                if i == len(e.values) - 1:
                    outs.append((v, s2))
                    continue
                t = self.truth_st(v, s2)
                if not is_sym(t):
                    if bool(t) == stop_on:
                        outs.append((v, s2))
                    else:
                        rec(i + 1, s2)
                    continue
                sides = self.split(s2, t)
                if len(sides) == 2 and i == len(e.values) - 2:
                    # pure merge: `x or 1`, `a and b` over scalars without side effects become an if-then-else term
                    go = [s3 for side, s3 in sides if side != stop_on][0]
                    m = self._mark()
                    r = self.ev(e.values[i + 1], go)
                    if len(r) == 1 and r[0][1] is go and m == self._mark() and self._mergeable(v, r[0][0]):
                        a, b = (v, r[0][0]) if stop_on else (r[0][0], v)
                        if not isinstance(a, (bool, tuple)) and not (is_sym(a) and z3.is_bool(a)):
                            a, b = as_arith(a), as_arith(b)
                        outs.append((If(t, a, b), s2))
                    else:
                        outs.append((v, [s3 for side, s3 in sides if side == stop_on][0]))
                        outs.extend(r)
                    continue
                for side, s3 in sides:
                    if side == stop_on:
                        outs.append((v, s3))
                    else:
                        rec(i + 1, s3)
        rec(0, st)
        return outs

    def ev_Compare(self, e, st):
        outs = []

        def rec(i, left, acc, s):
            if i == len(e.ops):
                outs.append((acc, s))
                return
            if acc is False:
                outs.append((False, s))
                return
            for right, s2 in self.ev(e.comparators[i], s):
                c = self.cmp(e.ops[i], left, right, s2)
                rec(i + 1, right, And(acc, c), s2)
        for l, s in self.ev(e.left, st):
            rec(0, l, True, s)
        return outs

    def cmp(self, op, a, b, s=None):
        if isinstance(op, (ast.Is, ast.IsNot, ast.Eq, ast.NotEq)) and a is not b and (getattr(a, "unknown", False) or getattr(b, "unknown", False)):
            # a value about which nothing is known (loop-carried state the loop specification did not anticipate, havoc'd to "anything"):
            # whether it is / equals another value is not known either - both outcomes are explored
            self._unknown_cmps = getattr(self, "_unknown_cmps", 0) + 1
            return z3.Bool(f"unknown_value_cmp!{self._unknown_cmps}")
        if isinstance(op, (ast.Is, ast.IsNot)):
            def ident(v):
                # abstract class objects carry their identity in `cid` (two references to the same class are `is`-identical)
                if isinstance(v, Rec) and "cid" in v.f:
                    return v.f["cid"]
                if isinstance(v, Ref) and s is not None and isinstance(s.H(v), dict) and "cid" in s.H(v):
                    return s.H(v)["cid"]
                return None
            # a record that stands for "a value or None" (validity flag): `x is None` is the negation of the flag
            for x, y in ((a, b), (b, a)):
                if y is None and isinstance(x, Rec) and not isinstance(x.valid, bool):
                    r = Not(x.valid)
                    return Not(r) if isinstance(op, ast.IsNot) else r
            ia, ib = ident(a), ident(b)
            if isinstance(a, Rec) and isinstance(b, Rec) and a.name == b.name and a is not b and ("oid" in a.f or "oid" in b.f):
                # records that stand for objects carry their identity in `oid` (their value is a function of it)
                if not ("oid" in a.f and "oid" in b.f):
                    raise Unsupported(f"identity of {a.name} objects")
                ia, ib = a.f["oid"], b.f["oid"]
            if ia is not None and ib is not None:
                r = Eq(ia, ib)
                return Not(r) if isinstance(op, ast.IsNot) else r
            if is_sym(a) or is_sym(b):
                code = self._enum_code(a, b)
                if code is not None:
                    r = code
                elif is_sym(a) and is_sym(b):
                    r = a == b
                elif isinstance(a, (bool, int)) or isinstance(b, (bool, int)):
                    # `x is True/False` on symbolic bools
                    sv, cv = (a, b) if is_sym(a) else (b, a)
                    r = (sv == to_z3(cv)) if (z3.is_bool(sv) == isinstance(cv, bool)) else False
                else:
                    r = False
            elif isinstance(a, (ClassV, Fn)) and isinstance(b, (ClassV, Fn)) and (isinstance(a, ClassV) or isinstance(b, ClassV)):
                r = a.name == b.name
            elif isinstance(a, (int, str, float, bytes, tuple)) and isinstance(b, (int, str, float, bytes, tuple)) and not isinstance(a, bool) and not isinstance(b, bool):
                r = a == b and type(a) is type(b)
            else:
                r = a is b
            return Not(r) if isinstance(op, ast.IsNot) else r
        if isinstance(op, (ast.In, ast.NotIn)):
            r = self.contains(b, a, s)
            return Not(r) if isinstance(op, ast.NotIn) else r
        if isinstance(op, (ast.Eq, ast.NotEq)):
            r = self.eq(a, b, s)
            return Not(r) if isinstance(op, ast.NotEq) else r
        if isinstance(a, Rec) and isinstance(b, (Rec, tuple)) or isinstance(b, Rec) and isinstance(a, tuple):
            a = a.astuple() if isinstance(a, Rec) else a      # NamedTuple-like records order as the tuples of their fields
            b = b.astuple() if isinstance(b, Rec) else b
        if isinstance(a, tuple) and isinstance(b, tuple):
            # lexicographic comparison of equal-length tuples
            strict = isinstance(op, (ast.Lt, ast.Gt))
            lt = isinstance(op, (ast.Lt, ast.LtE))
            if len(a) != len(b):
                # equal common prefix: the shorter tuple is the smaller one
                n_ = min(len(a), len(b))
                res = (len(a) < len(b)) if lt else (len(a) > len(b))
                a, b = a[:n_], b[:n_]
            else:
                res = not strict
            for x, y in reversed(list(zip(a, b))):
                x, y = as_arith(x), as_arith(y)
                res = Or(x < y if lt else x > y, And(Eq(x, y), res))
            return res
        a, b = as_arith(a), as_arith(b)
        if isinstance(a, Rec):
            a = a.astuple()
        if isinstance(b, Rec):
            b = b.astuple()
        if not (is_sym(a) or isinstance(a, (int, float))) or not (is_sym(b) or isinstance(b, (int, float))):
            if isinstance(a, str) and isinstance(b, str):
                pass
            else:
                raise Unsupported(f"order comparison of {a!r} and {b!r}")
        r = {ast.Lt: lambda: a < b, ast.LtE: lambda: a <= b, ast.Gt: lambda: a > b, ast.GtE: lambda: a >= b}[type(op)]()
        if getattr(self, "float_cmp_unstable", False) and any(is_sym(x) and z3.is_real(x) for x in (a, b)):
            # A-FLOAT refinement: two floats that are mathematically equal may compare either way (each was computed with its own
            # rounding error); everywhere else the comparison is exact
            e = z3.If(to_z3(a) == to_z3(b), self.sym_bool("float_tie"), r)
            if not hasattr(self, "_float_ties"):
                self._float_ties = {}
            self._float_ties[e.get_id()] = (to_z3(a), to_z3(b), r)
            self._float_tie_keep = getattr(self, "_float_tie_keep", []) + [e]      # keeps the ids alive
            return e
        return r

    # a symbolic integer that may also stand for a member of a plain Enum (a duration that is a number of milliseconds or
    # FrameDuration.DYNAMIC): the member has a reserved code outside the numbers' range, registered per engine
    enum_codes = {}

    def _enum_code(self, a, b):
        for x, y in ((a, b), (b, a)):
            if isinstance(y, EnumV) and (y.cls, y.name) in self.enum_codes and is_sym(x) and z3.is_int(x):
                return x == self.enum_codes[(y.cls, y.name)]
        return None

    def eq(self, a, b, s=None):
        if isinstance(a, Rec):
            a = a.astuple()
        if isinstance(b, Rec):
            b = b.astuple()
        code = self._enum_code(a, b)
        if code is not None:
            return code
        if isinstance(a, EnumV) and a.cls in self.int_enums:
            a = a.value
        if isinstance(b, EnumV) and b.cls in self.int_enums:
            b = b.value
        if isinstance(a, Ref) and isinstance(b, Ref):
            if a is b:
                return True
            if s is not None and isinstance(s.H(a), list) and isinstance(s.H(b), list):
                return self.eq(tuple(s.H(a)), tuple(s.H(b)), s)
            if s is not None and a.cls == b.cls == "dict" and isinstance(s.H(a), dict) and isinstance(s.H(b), dict):
                # two dict objects: equal iff same keys (concrete here) and equal values, whatever the insertion order
                ia, ib = s.H(a).get("@items"), s.H(b).get("@items")
                if ia is None or ib is None:
                    raise Unsupported("equality of dicts that are not spelled out")
                if len(ia) != len(ib) or any(k not in ib for k in ia):
                    if any(is_sym(k) for k in list(ia) + list(ib)):
                        raise Unsupported("equality of dicts with symbolic keys")
                    return False
                return And(*[self.eq(ia[k], ib[k], s) for k in ia])
            for c in self.mro(a.cls):
                if (c, "__eq__") in self.methods:
                    (r, _), = self.methods[(c, "__eq__")](self, s, a, (b,), {})
                    return r
            return False
        if isinstance(a, Ref) or isinstance(b, Ref):
            r, o = (a, b) if isinstance(a, Ref) else (b, a)
            if s is not None and isinstance(s.H(r), list) and isinstance(o, tuple):
                return False   # list != tuple in Python
            return False
        if isinstance(a, tuple) and isinstance(b, tuple):
            if len(a) != len(b):
                return False
            return And(*[self.eq(x, y, s) for x, y in zip(a, b)])
        if isinstance(a, tuple) or isinstance(b, tuple):
            return False
        if isinstance(a, Opaque) or isinstance(b, Opaque):
            raise Unsupported("equality on opaque")
        if isinstance(a, (TS,)) or isinstance(b, (TS,)):
            return tstr.ts_eq(a, b)
        if is_sym(a) or is_sym(b):
            if a is None or b is None or isinstance(a, (EnumV, str, ClassV)) or isinstance(b, (EnumV, str, ClassV)):
                if is_sym(a) and z3.is_string(a) and isinstance(b, str):
                    return a == z3.StringVal(b)
                if is_sym(b) and z3.is_string(b) and isinstance(a, str):
                    return b == z3.StringVal(a)
                return False
            a, b = to_z3(as_arith(a)), to_z3(as_arith(b))
            if z3.is_bool(a) != z3.is_bool(b):
                a = z3.If(a, 1, 0) if z3.is_bool(a) else a
                b = z3.If(b, 1, 0) if z3.is_bool(b) else b
            return a == b
        if isinstance(a, ClassV) and isinstance(b, ClassV):
            return a.name == b.name
        if isinstance(a, (EnumV, ClassV)) or isinstance(b, (EnumV, ClassV)):
            return a is b
        return a == b

    def contains(self, container, x, s):
        if isinstance(container, Ref):
            h = s.H(container)
            if isinstance(h, list):
                container = tuple(h)
            elif "@items" in h:
                container = tuple(h["@items"].keys())
            else:
                for c in self.mro(container.cls):
                    if (c, "__contains__") in self.methods:
                        (r, _), = self.methods[(c, "__contains__")](self, s, container, (x,), {})
                        return r
                raise Unsupported("`in` on object")
        if isinstance(container, Namespace):
            container = tuple(container.d.keys())
        if isinstance(container, (tuple, frozenset, set, list, dict)):
            return Or(*[self.eq(x, y, s) for y in container])
        if isinstance(container, str) and isinstance(x, str):
            return x in container
        if isinstance(container, SeqV) and container.kind == "range":
            lo, hi = container.lo, container.hi
            return And(to_z3(lo) <= x, x < to_z3(hi))
        if isinstance(container, Rec) and ("rec:" + container.name, "__contains__") in self.methods:
            # data known only as a term (pixel data, ...): membership is whatever the unit's contract says (usually: unknown)
            (r, _), = self.methods[("rec:" + container.name, "__contains__")](self, s, container, (x,), {})
            return r
        raise Unsupported(f"`in` on {container!r}")

    def _mark(self):
        return (self.nfork, len(self.rstack[-1]), len(self.obligations))

    @staticmethod
    def _mergeable(a, b):
        def num(v):
            return (is_sym(v) and (z3.is_int(v) or z3.is_real(v))) or (isinstance(v, (int, float)) and not isinstance(v, bool))

        def boo(v):
            return (is_sym(v) and z3.is_bool(v)) or isinstance(v, bool)
        if isinstance(a, tuple) and isinstance(b, tuple) and len(a) == len(b):
            return all(Engine._mergeable(x, y) for x, y in zip(a, b))
        return (num(a) and num(b)) or (boo(a) and boo(b))

    def ev_IfExp(self, e, st):
        res = []
        for c, s in self.ev(e.test, st):
            t = self.truth_st(c, s)
            sides = self.split(s, t)
            if len(sides) == 2:
                got = {}
                pure = True
                for side, s2 in sides:
                    m = self._mark()
                    r = self.ev(e.body if side else e.orelse, s2)
                    pure = pure and len(r) == 1 and r[0][1] is s2 and m == self._mark()
                    got[side] = r
                vt_, vf_ = got[True][0][0] if got[True] else None, got[False][0][0] if got[False] else None
                if pure and isinstance(vt_, (str, TS)) and isinstance(vf_, (str, TS)) and (vt_ == "" or vf_ == "") and not (vt_ == "" and vf_ == ""):
                    # `X if c else ""` over terminal strings: one conditional piece instead of two paths
                    res.append((TS([tstr.Cond(t, tstr.as_ts(vt_))]) if vf_ == "" else TS([tstr.Cond(z3.Not(t), tstr.as_ts(vf_))]), s))
                elif pure and self._mergeable(got[True][0][0], got[False][0][0]):
                    res.append((If(t, as_arith(got[True][0][0]) if not isinstance(got[True][0][0], (bool, tuple)) else got[True][0][0],
                                   as_arith(got[False][0][0]) if not isinstance(got[False][0][0], (bool, tuple)) else got[False][0][0]), s))
                else:
                    res += got[True] + got[False]
            else:
                for side, s2 in sides:
                    res += self.ev(e.body if side else e.orelse, s2)
        return res

    def ev_NamedExpr(self, e, st):
        outs = []
        for v, s in self.ev(e.value, st):
            s = self.fork(s)
            self.assign(e.target, v, s)
            outs.append((v, s))
        return outs

    def ev_Lambda(self, e, st):
        return [(Closure(e, len(st.frames), "<lambda>"), st)]

    def ev_Slice(self, e, st):
        return [(("slice",) + t, s) for t, s in self.ev_slice(e, st)]

    def ev_Starred(self, e, st):
        raise Unsupported("starred outside call/tuple")

    def ev_GeneratorExp(self, e, st):
        if len(e.generators) != 1:
            raise Unsupported("nested comprehension")
        gen = e.generators[0]
        outs = []
        for src, s in self.ev(gen.iter, st):
            try:
                outs.append((self.comprehend(e.elt, gen, src, s), s))
            except SymbolicFilter:
                outs += self.comprehend_split(e.elt, gen, src, s)
        return outs

    ev_ListComp = ev_GeneratorExp

    def ev_SetComp(self, e, st):
        """{elt for x in src}: a concrete source gives a frozenset of the (hashable) element values; a symbolic sequence gives a
        symbolic collection that may be iterated / splatted / tested for emptiness, but whose size is only known to be between
        min(1, n) and n (duplicates collapse) - len() of it is out of the subset"""
        outs = []
        for seq, s in self.ev_GeneratorExp(e, st):
            if isinstance(seq, tuple):
                try:
                    outs.append((frozenset(seq), s))
                except TypeError:
                    raise Unsupported("set comprehension over unhashable symbolic values")
            elif isinstance(seq, SeqV):
                outs.append((SeqV(seq.length, seq.elem, "setcomp"), s))
            else:
                raise Unsupported("set comprehension")
        return outs

    def comprehend_split(self, elt, gen, src, s):
        """filter conditions that depend on symbolic values: one path per combination of kept / dropped elements (concrete source)"""
        acc = [((), s)]
        for it in self.iter_concrete(src, s):
            nxt = []
            for out, cur in acc:
                s2 = self.fork(cur)
                s2.frames.append({})
                self.assign(gen.target, it, s2)
                branches = [(True, s2)]
                for cond in gen.ifs:
                    nb = []
                    for keep, s3 in branches:
                        if not keep:
                            nb.append((False, s3))
                            continue
                        c, s4 = self.ev1(cond, s3)
                        t = self.truth_st(c, s4)
                        nb += [(bool(side), s5) for side, s5 in self.split(s4, t)] if is_sym(t) else [(bool(t), s4)]
                    branches = nb
                for keep, s3 in branches:
                    if keep:
                        v, s3 = self.ev1(elt, s3)
                        s3 = self.fork(s3)
                        s3.frames.pop()
                        nxt.append((out + (v,), s3))
                    else:
                        s3 = self.fork(s3)
                        s3.frames.pop()
                        nxt.append((out, s3))
            acc = nxt
        return acc

    def comprehend(self, elt, gen, src, s):
        """lazy sequence: element k evaluated in the *iterating* state"""
        if gen.ifs:
            # only concrete sources support filters
            items = self.iter_concrete(src, s)
            out = []
            for it in items:
                s2 = self.fork(s)
                s2.frames.append({})
                self.assign(gen.target, it, s2)
                keep = True
                for cond in gen.ifs:
                    c, _ = self.ev1(cond, s2)
                    t = self.truth_st(c, s2)
                    if is_sym(t):
                        raise SymbolicFilter()
                    keep = keep and t
                if keep:
                    v, _ = self.ev1(elt, s2)
                    out.append(v)
            return tuple(out)
        if isinstance(src, SeqV):
            def elem(k, cur, src=src):
                s2 = self.fork(cur)
                s2.frames.append({})
                n0 = len(s2.pc)
                self.assign(gen.target, src.elem(k, cur), s2)
                v, s3 = self.ev1(elt, s2)
                cur.pc += s3.pc[n0:]          # facts learnt while evaluating the element (assumed contracts of reads) stay valid
                return v
            return SeqV(src.length, elem, "genexp")
        items = self.iter_concrete(src, s)
        out = []
        for it in items:
            s2 = self.fork(s)
            s2.frames.append({})
            self.assign(gen.target, it, s2)
            v, _ = self.ev1(elt, s2)
            out.append(v)
        return tuple(out)

    def ev_Yield(self, e, st):
        if self.on_yield is None:
            raise Unsupported("yield without a generator contract")
        outs = []
        vals = self.ev(e.value, st) if e.value is not None else [(None, st)]
        for v, s in vals:
            outs += self.on_yield(self, e, v, s)
        return outs

    # ------------------------------------------------------------------ calls
    def ev_Call(self, e, st):
        res = []
        for f, s in self.ev(e.func, st):
            for args, s2 in self.ev_seq(e.args, s):
                for kwargs, s3 in self.ev_kwargs(e.keywords, s2):
                    try:
                        res += self.call(f, args, kwargs, s3, e)
                    except PathEnded:
                        pass
        return res

    def ev_kwargs(self, keywords, st):
        outs = [({}, st)]
        for kw in keywords:
            nxt = []
            for acc, s in outs:
                for v, s2 in self.ev(kw.value, s):
                    if kw.arg is None:
                        if isinstance(v, Ref) and "@items" in s2.H(v):
                            nxt.append(({**acc, **s2.H(v)["@items"]}, s2))
                        elif isinstance(v, dict):
                            nxt.append(({**acc, **v}, s2))
                        else:
                            raise Unsupported("** of non-dict")
                    else:
                        nxt.append(({**acc, kw.arg: v}, s2))
            outs = nxt
        return outs

    def call(self, f, args, kwargs, s, node=None):
        if isinstance(f, Fn):
            return f.f(self, s, args, kwargs)
        if isinstance(f, Closure):
            return self.call_closure(f, args, kwargs, s)
        if isinstance(f, Bound):
            return self.call_method(f.recv, f.name, args, kwargs, s)
        if isinstance(f, ClassV):
            if f.name in self.exc_parents or f.name.endswith("Error"):
                return [(ExcVal(f.name, args), s)]
            for c in self.mro(f.name):
                if ("new:" + c) in self.methods:
                    return self.methods["new:" + c](self, s, f, args, kwargs)
            raise Unsupported(f"constructor of {f.name}")
        if callable(f) and not isinstance(f, (ClassV,)):
            return f(self, s, args, kwargs)
        if isinstance(f, Ref):
            for c in self.mro(f.cls):
                if (c, "__call__") in self.methods:
                    return self.methods[(c, "__call__")](self, s, f, args, kwargs)
        raise Unsupported(f"call of {f!r} at line {getattr(node, 'lineno', '?')}")

    def call_method(self, recv, name, args, kwargs, s):
        if isinstance(recv, Ref) and recv.cls == "@citer" and name == "__next__":
            s = self.fork(s)
            h = s.H(recv)
            if h["pos"] >= len(h["items"]):
                self.raise_("StopIteration", s)
                return []
            h["pos"] += 1
            return [(h["items"][h["pos"] - 1], s)]
        if isinstance(recv, Rec) and recv.name in self.theory:
            return self.theory_op(recv, name, args, s)
        if name == "join" and len(args) == 1 and isinstance(args[0], Rec) and args[0].name in self.theory:
            return self.theory_op(args[0], "__joined__", (recv,), s)
        if isinstance(recv, Ref):
            for c in self.mro(recv.cls):
                if (c, name) in self.methods:
                    return self.methods[(c, name)](self, s, recv, args, kwargs)
            h = s.H(recv)
            if isinstance(h, list):
                return self.list_method(recv, name, args, s)
            if recv.cls == "dict" and "@items" in h:
                return self.dict_method(recv, name, args, s)
            if recv.cls in self.closed_classes and (recv.cls not in self.closed_only or name in self.closed_only[recv.cls]):
                self.raise_(ExcVal("AttributeError", (name,)), s)
                return []
            raise Unsupported(f"method {recv.cls}.{name}")
        if isinstance(recv, ClassV):
            for c in self.mro(recv.name):
                if ("type:" + c, name) in self.methods:
                    return self.methods[("type:" + c, name)](self, s, recv, args, kwargs)
            raise Unsupported(f"class method {recv.name}.{name}")
        if isinstance(recv, frozenset) and name in ("isdisjoint", "issubset", "issuperset", "union", "intersection", "difference") and not any(is_sym(x) for x in recv):
            conv = lambda a_: frozenset(s.H(a_)["@items"]) if isinstance(a_, Ref) and a_.cls == "dict" and "@items" in s.H(a_) else frozenset(self.iter_concrete(a_, s))
            sets = [conv(a_) for a_ in args]
            if any(is_sym(x) for st_ in sets for x in st_):
                raise Unsupported(f"frozenset.{name} with symbolic members")
            return [(getattr(recv, name)(*sets), s)]
        if isinstance(recv, (str, TS)):
            return [(tstr.str_method(recv, name, args), s)]
        if isinstance(recv, tuple) and name == "index":
            raise Unsupported("tuple.index")
        if isinstance(recv, tuple) and name == "count":
            return [(sum(1 for x in recv if x == args[0]), s)]
        if isinstance(recv, bytes) and name == "join" and not all(isinstance(x, bytes) for x in (args[0] if isinstance(args[0], (tuple, list)) else ())):
            return [(tstr.concat_join(recv.decode("latin1"), [x.decode("latin1") if isinstance(x, bytes) else x for x in self.iter_concrete(args[0], s)]), s)]
        if isinstance(recv, bytes) and not any(is_sym(a) for a in args):
            return [(getattr(recv, name)(*args), s)]
        if is_sym(recv) and z3.is_string(recv):
            if name == "lstrip" and len(args) == 1 and isinstance(args[0], str) and len(args[0]) == 1:
                # nothing to strip when the string cannot start with that character (decided under the path condition)
                if not self.feasible(s.pc + [z3.PrefixOf(z3.StringVal(args[0]), recv)]):
                    return [(recv, s)]
                # s = ch*k + rest, rest does not start with ch (rest is a fresh name, fixed by these two facts)
                self._fresh_strs = getattr(self, "_fresh_strs", 0) + 1
                head, rest = z3.String(f"lstrip_head!{self._fresh_strs}"), z3.String(f"lstrip_rest!{self._fresh_strs}")
                s = self.fork(s)
                s.pc += [recv == z3.Concat(head, rest), z3.InRe(head, z3.Star(z3.Re(args[0]))), z3.Not(z3.PrefixOf(z3.StringVal(args[0]), rest))]
                return [(rest, s)]
            if name in ("isdecimal", "isdigit") and not args:
                # every character a decimal digit (A-DIGITS: ASCII plus one other script stand for category Nd), at least one
                nd = getattr(self, "unicode_nd", None) or [[48, 57]]
                d_any = z3.Union(*[z3.Range(chr(a), chr(b)) for a, b in nd]) if len(nd) > 1 else z3.Range("0", "9")
                return [(z3.InRe(recv, z3.Plus(d_any)), s)]
            if name in ("lower", "upper") and not args:
                return [(PY_CASE[name](recv), s)]        # uninterpreted: only `the same function of the same text` is known
            if name in ("endswith", "startswith") and len(args) == 1:
                lit = lambda x: z3.StringVal(x.decode("latin1") if isinstance(x, bytes) else x)
                alts = args[0] if isinstance(args[0], tuple) else (args[0],)
                if all(isinstance(x, (str, bytes)) for x in alts):
                    f_ = z3.SuffixOf if name == "endswith" else z3.PrefixOf
                    return [(z3.Or(*[f_(lit(x), recv) for x in alts]) if len(alts) != 1 else f_(lit(alts[0]), recv), s)]
            if name == "count" and len(args) == 1 and isinstance(args[0], (str, bytes)):
                n_ = PY_COUNT(recv, z3.StringVal(args[0].decode("latin1") if isinstance(args[0], bytes) else args[0]))
                s = self.fork(s, n_ >= 0)                # number of non-overlapping occurrences: uninterpreted, non-negative
                return [(n_, s)]
            raise Unsupported(f"method {name} on a symbolic string")
        if is_sym(recv) and z3.is_int(recv) and name == "bit_length":
            raise Unsupported("bit_length")
        if isinstance(recv, SeqV) and recv.kind in ("frozenset", "tuple") and not hasattr({"frozenset": frozenset, "tuple": tuple}[recv.kind], name):
            # a symbolic collection that stands for an immutable built-in: it has the methods of that type and no others
            self.raise_(ExcVal("AttributeError", (f"'{recv.kind}' object has no attribute '{name}'",)), s)
            return []
        raise Unsupported(f"method {name} of {recv!r}")

    def dict_method(self, recv, name, args, s):
        d = s.H(recv)["@items"]
        if any(is_sym(k) for k in d) or any(is_sym(a) for a in args[:1]):
            raise Unsupported("dict method with symbolic keys")
        if name == "items":
            return [(tuple(d.items()), s)]
        if name == "keys":
            return [(tuple(d.keys()), s)]
        if name == "values":
            return [(tuple(d.values()), s)]
        if name == "get":
            return [(d.get(args[0], args[1] if len(args) > 1 else None), s)]
        if name in ("update", "pop", "setdefault", "clear"):
            s = self.fork(s)
            d = dict(d)
            if name == "update":
                for a in args:
                    d.update(s.H(a)["@items"] if isinstance(a, Ref) else a)
                r = None
            elif name == "pop":
                if args[0] not in d and len(args) < 2:
                    self.raise_("KeyError", s)
                    return []
                r = d.pop(*args)
            elif name == "setdefault":
                r = d.setdefault(*args)
            else:
                d.clear()
                r = None
            s.H(recv)["@items"] = d
            return [(r, s)]
        raise Unsupported(f"dict.{name}")

    def list_method(self, recv, name, args, s):
        s = self.fork(s)
        h = s.H(recv)
        if name == "append":
            h.append(args[0])
            return [(None, s)]
        if name == "pop":
            if not h:
                self.raise_("IndexError", s)
                return []
            return [(h.pop(*args), s)]
        if name == "extend":
            h.extend(self.iter_concrete(args[0], s))
            return [(None, s)]
        if name == "clear":
            h.clear()
            return [(None, s)]
        if name == "copy":
            return [(s.new_list(list(h)), s)]
        if name == "insert":
            h.insert(args[0], args[1])
            return [(None, s)]
        raise Unsupported(f"list.{name}")

    def bind_params(self, fnode, args, kwargs, defaults, s):
        a = fnode.args
        if a.vararg and not isinstance(fnode, ast.Lambda):
            pass
        names = [x.arg for x in a.posonlyargs + a.args]
        frame = {}
        args = list(args)
        if len(args) > len(names) and not a.vararg:
            raise Unsupported("too many positional arguments")
        for n, v in zip(names, args):
            frame[n] = v
        if a.vararg:
            frame[a.vararg.arg] = tuple(args[len(names):])
        kw = dict(kwargs)
        for n in names[len(args):] + [x.arg for x in a.kwonlyargs]:
            if n in kw:
                frame[n] = kw.pop(n)
            elif n in defaults:
                frame[n] = defaults[n]
            else:
                raise Unsupported(f"missing argument {n}")
        if a.kwarg:
            frame[a.kwarg.arg] = s.new("dict", {"@items": kw})
        elif kw:
            raise Unsupported(f"unexpected keyword arguments {list(kw)}")
        return frame

    def closure_defaults(self, fnode, st):
        a = fnode.args
        d = {}
        pos = a.posonlyargs + a.args
        for arg, dv in zip(pos[len(pos) - len(a.defaults):], a.defaults):
            d[arg.arg] = self.ev1(dv, st)[0]
        for arg, dv in zip(a.kwonlyargs, a.kw_defaults):
            if dv is not None:
                d[arg.arg] = self.ev1(dv, st)[0]
        return d

    def call_closure(self, f, args, kwargs, s):
        s = self.fork(s)
        upper = s.frames[f.depth:]
        s.frames = s.frames[:f.depth]
        frame = self.bind_params(f.node, args, kwargs, f.defaults, s)
        s.frames.append(frame)
        if isinstance(f.node, ast.Lambda):
            outs = [("return", v, s2) for v, s2 in self.ev(f.node.body, s)]
        else:
            nonlocals = {n for x in ast.walk(f.node) if isinstance(x, ast.Nonlocal) for n in x.names}
            frame["__nonlocal__"] = nonlocals
            outs = self.run(self.body_of(f.node), s)
        res = []
        for kind, val, s2 in outs:
            s2.frames = s2.frames[:f.depth] + [dict(fr) for fr in upper]
            if kind == "raise":
                self.raise_(val, s2)
            elif kind in ("return", "normal"):
                res.append((val if kind == "return" else None, s2))
            else:
                raise Unsupported("break/continue escaping a function")
        return res

    @staticmethod
    def body_of(fnode):
        body = fnode.body
        if body and isinstance(body[0], ast.Expr) and isinstance(body[0].value, ast.Constant) and isinstance(body[0].value.value, str):
            body = body[1:]
        return body

    # ------------------------------------------------------------------ statements
    def run(self, stmts, st):
        frontier = [("normal", None, st)]
        for stmt in stmts:
            nxt = []
            for kind, val, s in frontier:
                if kind != "normal":
                    nxt.append((kind, val, s))
                else:
                    if self.async_faults and not self.finally_depth and not isinstance(stmt, (ast.FunctionDef, ast.Pass)):
                        # an asynchronous exception (signal handler) surfacing at this statement boundary
                        for exc in self.async_faults:
                            nxt.append(("raise", ExcVal(exc), self.fork(s)))
                    nxt += self.ex(stmt, s)
            frontier = nxt
        return frontier

    def ex(self, stmt, st):
        m = getattr(self, "ex_" + type(stmt).__name__, None)
        if m is None:
            raise Unsupported(f"statement {type(stmt).__name__} at line {stmt.lineno}")
        self.rstack.append([])
        try:
            outs = m(stmt, st)
        finally:
            rs = self.rstack.pop()
        return outs + [("raise", e, s) for e, s in rs]

    def ex_Expr(self, n, st):
        if isinstance(n.value, ast.Constant):
            return [("normal", None, st)]
        return [("normal", None, s) for _, s in self.ev(n.value, st)]

    def ex_Pass(self, n, st):
        return [("normal", None, st)]

    def ex_Import(self, n, st):
        return [("normal", None, st)]

    ex_ImportFrom = ex_Import

    def ex_Global(self, n, st):
        st.env.setdefault("__global__", set()).update(n.names)
        return [("normal", None, st)]

    def ex_Nonlocal(self, n, st):
        return [("normal", None, st)]

    def ex_Break(self, n, st):
        return [("break", None, st)]

    def ex_Continue(self, n, st):
        return [("continue", None, st)]

    def ex_Assert(self, n, st):
        outs = []
        for c, s in self.ev(n.test, st):
            for side, s2 in self.split(s, self.truth_st(c, s)):
                if side:
                    outs.append(("normal", None, s2))
                else:
                    outs.append(("raise", ExcVal("AssertionError"), s2))
        return outs

    def ex_FunctionDef(self, n, st):
        s = self.fork(st)
        s.env[n.name] = Closure(n, len(s.frames), n.name, self.closure_defaults(n, s))
        return [("normal", None, s)]

    def set_name(self, name, v, s):
        fr = s.frames[-1]
        if name in fr.get("__nonlocal__", ()):
            for f in reversed(s.frames[:-1]):
                if name in f:
                    f[name] = v
                    return
            raise Unsupported(f"nonlocal {name!r}: no enclosing binding in the modelled frames")
        if name in fr.get("__global__", ()):
            if self.globals_obj is None:
                raise Unsupported("write to a module global without a globals object")
            s.H(self.globals_obj)[name] = v
            return
        fr[name] = v

    def assign(self, tgt, v, s):
        if isinstance(tgt, ast.Name):
            self.set_name(tgt.id, v, s)
        elif isinstance(tgt, (ast.Tuple, ast.List)):
            vs = self.iter_concrete(v, s)
            star = [i for i, t in enumerate(tgt.elts) if isinstance(t, ast.Starred)]
            if star:
                i = star[0]
                after = len(tgt.elts) - i - 1
                for t, x in zip(tgt.elts[:i], vs[:i]):
                    self.assign(t, x, s)
                self.assign(tgt.elts[i].value, s.new_list(vs[i:len(vs) - after]), s)
                for t, x in zip(tgt.elts[i + 1:], vs[len(vs) - after:]):
                    self.assign(t, x, s)
            else:
                if len(vs) != len(tgt.elts):
                    raise Unsupported(f"unpack {len(vs)} values into {len(tgt.elts)} targets (line {tgt.lineno})")
                for t, x in zip(tgt.elts, vs):
                    self.assign(t, x, s)
        elif isinstance(tgt, ast.Attribute):
            o, _ = self.ev1(tgt.value, s)
            self.setattr(o, tgt.attr, v, s)
        elif isinstance(tgt, ast.Subscript):
            o, _ = self.ev1(tgt.value, s)
            i, _ = self.ev1(tgt.slice, s)
            self.setitem(o, i, v, s)
        else:
            raise Unsupported(f"assignment target {type(tgt).__name__}")

    def setattr(self, o, name, v, s):
        if isinstance(o, Ref):
            for c in self.mro(o.cls):
                if (c, "set:" + name) in self.methods:
                    res = self.methods[(c, "set:" + name)](self, s, o, (v,), {})
                    if len(res) == 0:
                        raise PathEnded()          # the setter raised (recorded on the raise stack): this path does not continue
                    if len(res) != 1 or res[0][1] is not s:
                        raise Unsupported("forking property setter in assignment")
                    return
            s.H(o)[name] = v
            s.ghost.setdefault("writes", [])
            s.ghost["writes"] = s.ghost["writes"] + [(o.id, name)]
        elif isinstance(o, ClassV):
            raise Unsupported("class attribute write (use the class-heap model)")
        else:
            raise Unsupported(f"attribute write on {o!r}")

    def setitem(self, o, i, v, s):
        if isinstance(o, Ref):
            h = s.H(o)
            if isinstance(h, list):
                if isinstance(i, tuple) and i and i[0] == "slice":
                    _, lo, hi, step = i
                    if step is not None or is_sym(lo) or is_sym(hi):
                        raise Unsupported("symbolic slice store")
                    h[lo:hi] = self.iter_concrete(v, s)
                    return
                if is_sym(i):
                    raise Unsupported("symbolic index store into concrete list")
                h[i] = v
                return
            for c in self.mro(o.cls):
                if (c, "__setitem__") in self.methods:
                    res = self.methods[(c, "__setitem__")](self, s, o, (i, v), {})
                    if len(res) != 1 or res[0][1] is not s:
                        raise Unsupported("forking __setitem__")
                    return
            if "@items" in h and not is_sym(i):
                h["@items"] = {**h["@items"], i: v}
                return
        raise Unsupported(f"subscript store on {o!r}")

    def ex_Assign(self, n, st):
        out = []
        for v, s in self.ev(n.value, st):
            s = self.fork(s)
            try:
                for t in n.targets:
                    self.assign(t, v, s)
            except PathEnded:
                continue
            out.append(("normal", None, s))
        return out

    def ex_AnnAssign(self, n, st):
        if n.value is None:
            # `x: T` binds nothing, but makes x a local of this scope (a nested function may name it `nonlocal`)
            if isinstance(n.target, ast.Name) and n.target.id not in st.frames[-1]:
                st = self.fork(st)
                st.frames[-1][n.target.id] = UNBOUND
            return [("normal", None, st)]
        return self.ex_Assign(ast.Assign([n.target], n.value, lineno=n.lineno), st)

    def ex_AugAssign(self, n, st):
        out = []
        load = ast.fix_missing_locations(ast.copy_location(_as_load(n.target), n.target))
        for cur, s in self.ev(load, st):
            for v, s2 in self.ev(n.value, s):
                for r, s3 in self.binop(n.op, cur, v, s2):
                    s3 = self.fork(s3)
                    self.assign(n.target, r, s3)
                    out.append(("normal", None, s3))
        return out

    def ex_Delete(self, n, st):
        s = self.fork(st)
        for t in n.targets:
            if isinstance(t, ast.Name):
                s.env.pop(t.id, None)
            elif isinstance(t, ast.Attribute):
                o, _ = self.ev1(t.value, s)
                if isinstance(o, Ref):
                    for c in self.mro(o.cls):
                        if (c, "del:" + t.attr) in self.methods:
                            self.methods[(c, "del:" + t.attr)](self, s, o, (), {})
                            break
                    else:
                        if t.attr not in s.H(o):
                            self.raise_("AttributeError", s)
                            return []
                        del s.H(o)[t.attr]
                else:
                    raise Unsupported("del attribute on non-object")
            elif isinstance(t, ast.Subscript):
                o, _ = self.ev1(t.value, s)
                i, _ = self.ev1(t.slice, s)
                for c in self.mro(o.cls) if isinstance(o, Ref) else ():
                    if (c, "__delitem__") in self.methods:
                        res = self.methods[(c, "__delitem__")](self, s, o, (i,), {})
                        return [("normal", None, s2) for _, s2 in res]
                if isinstance(o, Ref) and o.cls == "dict" and "@items" in s.H(o) and not is_sym(i) and not any(is_sym(k_) for k_ in s.H(o)["@items"]):
                    d_ = dict(s.H(o)["@items"])
                    if i not in d_:
                        self.raise_(ExcVal("KeyError", (i,)), s)
                        return []
                    del d_[i]
                    s.H(o)["@items"] = d_
                    continue
                raise Unsupported("del subscript")
            else:
                raise Unsupported("del target")
        return [("normal", None, s)]

    def ex_Return(self, n, st):
        if n.value is None:
            return [("return", None, st)]
        return [("return", v, s) for v, s in self.ev(n.value, st)]

    def ex_Raise(self, n, st):
        if n.exc is None:
            if not self.exc_stack:
                raise Unsupported("bare raise outside handler")
            return [("raise", self.exc_stack[-1], st)]
        out = []
        for v, s in self.ev(n.exc, st):
            cause = None
            if n.cause is not None:
                cause, s = self.ev1(n.cause, s)
            if isinstance(v, ClassV):
                v = ExcVal(v.name)
            if not isinstance(v, ExcVal):
                raise Unsupported(f"raise of {v!r}")
            if cause is not None:
                v = ExcVal(v.cls, v.args, cause)
            out.append(("raise", v, s))
        return out

    def ex_If(self, n, st):
        out = []
        for c, s in self.ev(n.test, st):
            for side, s2 in self.split(s, self.truth_st(c, s)):
                out += self.run(n.body if side else n.orelse, s2)
        return out

    def handler_matches(self, h, exc, st):
        if h.type is None:
            return True
        t, _ = self.ev1(h.type, st)
        ts = t if isinstance(t, tuple) else (t,)
        return any(self.issubclass(exc.cls, x.name if isinstance(x, ClassV) else str(x)) for x in ts)

    def ex_Try(self, n, st):
        outs = []
        self.try_depth += 1
        try:
            body_outs = self.run(n.body, st)
        finally:
            self.try_depth -= 1
        for kind, val, s in body_outs:
            res = [(kind, val, s)]
            if kind == "raise":
                for h in n.handlers:
                    if self.handler_matches(h, val, s):
                        s = self.fork(s)
                        if h.name:
                            s.env[h.name] = val
                        self.exc_stack.append(val)
                        try:
                            res = self.run(h.body, s)
                        finally:
                            self.exc_stack.pop()
                        break
            elif kind == "normal" and n.orelse:
                res = self.run(n.orelse, s)
            for k2, v2, s2 in res:
                if n.finalbody:
                    self.finally_depth += 1
                    if k2 == "raise":
                        self.exc_stack.append(v2)
                    try:
                        fin = self.run(n.finalbody, s2)
                    finally:
                        self.finally_depth -= 1
                        if k2 == "raise":
                            self.exc_stack.pop()
                    for k3, v3, s3 in fin:
                        outs.append((k2, v2, s3) if k3 == "normal" else (k3, v3, s3))
                else:
                    outs.append((k2, v2, s2))
        return outs

    def ex_With(self, n, st):
        if len(n.items) != 1:
            inner = ast.With(items=n.items[1:], body=n.body, lineno=n.lineno, col_offset=n.col_offset)
            n = ast.With(items=n.items[:1], body=[inner], lineno=n.lineno, col_offset=n.col_offset)
        item = n.items[0]
        outs = []
        for cm, s in self.ev(item.context_expr, st):
            enter = self.cm_enter(cm, s)
            for v, s2 in enter:
                s2 = self.fork(s2)
                if item.optional_vars is not None:
                    self.assign(item.optional_vars, v, s2)
                for kind, val, s3 in self.run(n.body, s2):
                    self.finally_depth += 1
                    try:
                        for _, s4 in self.cm_exit(cm, s3, kind, val):
                            outs.append((kind, val, s4))
                    finally:
                        self.finally_depth -= 1
        return outs

    def cm_enter(self, cm, s):
        if isinstance(cm, Ref):
            for c in self.mro(cm.cls):
                if (c, "__enter__") in self.methods:
                    return self.methods[(c, "__enter__")](self, s, cm, (), {})
        if isinstance(cm, Opaque) and cm.why == "lock":
            return [(cm, s)]
        raise Unsupported(f"context manager {cm!r}")

    def cm_exit(self, cm, s, kind, val):
        if isinstance(cm, Ref):
            for c in self.mro(cm.cls):
                if (c, "__exit__") in self.methods:
                    return self.methods[(c, "__exit__")](self, s, cm, (kind, val), {})
        return [(None, s)]

    # ---- loops --------------------------------------------------------------------------------------
    def number_loops(self, fn):
        loops = sorted([x for x in ast.walk(fn) if isinstance(x, (ast.For, ast.While))], key=lambda x: (x.lineno, x.col_offset))
        self.loop_ids = {(x.lineno, x.col_offset): i for i, x in enumerate(loops, 1)}
        self.loop_fns = getattr(self, "loop_fns", {})
        for x in loops:
            self.loop_fns[(x.lineno, x.col_offset)] = fn

    def loop_outcomes(self, outs_iter, after_normal):
        """shared handling of body outcomes: normal/continue -> after_normal(state); break -> exits loop"""
        res = []
        for kind, val, s in outs_iter:
            if kind in ("normal", "continue"):
                after_normal(s)
            elif kind == "break":
                res.append(("normal", None, s))
            else:
                res.append((kind, val, s))
        return res

    def ex_For(self, n, st):
        outs = []
        for seq, s0 in self.ev(n.iter, st):
            lid = self.loop_ids.get((n.lineno, n.col_offset))
            spec = self.invariants.get(lid)
            if isinstance(seq, Ref) and seq.cls == "iterator" or (isinstance(seq, Ref) and spec is not None and getattr(spec, "iterator", False)):
                outs += self.for_iterator(n, seq, s0, lid, spec)
                continue
            if isinstance(seq, SeqV) and (is_sym(seq.length) or spec is not None):
                if spec is None:
                    raise Unsupported(f"loop {lid} (line {n.lineno}) over a symbolic sequence needs an invariant")
                outs += self.for_symbolic(n, seq, s0, lid, spec)
                continue
            citer = seq if isinstance(seq, Ref) and seq.cls == "@citer" else None
            if citer is not None:
                h = s0.H(citer)
                items = list(h["items"][h["pos"]:])
            else:
                items = self.iter_concrete(seq, s0)
            frontier = [("normal", None, s0)]
            broke = []
            for item in items:
                nxt = []
                for kind, val, s in frontier:
                    if kind != "normal":
                        nxt.append((kind, val, s))
                        continue
                    s = self.fork(s)
                    if citer is not None:
                        s.H(citer)["pos"] += 1      # an explicit iterator is consumed item by item (a later loop continues after it)
                    self.assign(n.target, item, s)
                    for k2, v2, s2 in self.run(n.body, s):
                        if k2 == "continue":
                            nxt.append(("normal", None, s2))
                        elif k2 == "break":
                            broke.append(("normal", None, s2))
                        else:
                            nxt.append((k2, v2, s2))
                frontier = nxt
            for kind, val, s in frontier:
                if kind == "normal" and n.orelse:
                    outs += self.run(n.orelse, s)
                else:
                    outs.append((kind, val, s))
            outs += broke
        return outs

    def for_symbolic(self, n, seq, s0, lid, spec):
        outs = []
        N = to_z3(seq.length)
        spec.entry = s0        # the state at loop entry (invariants may relate ghost counters to their entry values)
        self.oblige(f"loop{lid}/inv-entry", s0, spec.inv(s0, z3.IntVal(0), N), kind="invariant")
        if spec.qinv:
            self.qoblige(f"loop{lid}/inv-entry", s0, spec.qinv(s0, z3.IntVal(0), N), kind="invariant")
        h0 = self.fork(s0)
        k = self.sym_int(f"k{lid}")
        heads = spec.havoc(self, h0, f"L{lid}")
        # a havoc may split into several heads (a python-valued field that ranges over a few concrete values)
        heads = heads if isinstance(heads, list) else [h0]
        for h in heads:
            it = self.fork(h)
            it.pc += [k >= 0, k < N, to_z3(spec.inv(it, k, N))]
            if spec.qinv:
                it.ghost["Q"] = list(it.ghost.get("Q", [])) + spec.qinv(it, k, N)
            if spec.qfacts:
                it.ghost["Q"] = list(it.ghost.get("Q", [])) + spec.qfacts(it, k, N)
            if not self.feasible(it.pc):
                it = None
            if it is not None:
                self.assign(n.target, seq.elem(k, it), it)
                for kind, val, s2 in self.run(n.body, it):
                    if kind in ("normal", "continue"):
                        self.loop_frame_check(lid, n, spec, s0, h, s2, heads)
                        s2i = s2
                        if s2.ghost.get("Q") and s2.ghost.get("Qterms"):
                            # the assumed universally quantified facts of the path, instantiated at the terms the body read
                            s2i = s2.fork()
                            for term in s2.ghost["Qterms"]:
                                s2i.pc += [to_z3(q(term)) for q in s2.ghost["Q"]]
                        self.oblige(f"loop{lid}/inv-preserved", s2i, spec.inv(s2, k + 1, N), kind="invariant")
                        if spec.qinv:
                            self.qoblige(f"loop{lid}/inv-preserved", s2, spec.qinv(s2, k + 1, N), kind="invariant")
                    elif kind == "break":
                        if spec.on_break is None:
                            raise Unsupported("break in a symbolic for loop needs on_break")
                        outs.append(("normal", None, spec.on_break(s2)))
                    else:
                        outs.append((kind, val, s2))
            exit_ = self.fork(h)
            exit_.pc.append(to_z3(spec.inv(exit_, N, N)))
            if spec.qinv:
                exit_.ghost["Q"] = list(exit_.ghost.get("Q", [])) + spec.qinv(exit_, N, N)
            if self.feasible(exit_.pc):
                if n.orelse:
                    outs += self.run(n.orelse, exit_)
                else:
                    outs.append(("normal", None, exit_))
        return outs

    def for_iterator(self, n, it, s0, lid, spec):
        outs = []
        if spec is None:
            raise Unsupported(f"loop {lid} over an iterator needs an invariant")
        self.oblige(f"loop{lid}/inv-entry", s0, spec.inv(s0), kind="invariant")
        h = self.fork(s0)
        spec.havoc(self, h, f"L{lid}")
        h.pc.append(to_z3(spec.inv(h)))
        self.rstack.append([])
        results = self.call_method(it, "__next__", (), {}, h)
        raised = self.rstack.pop()
        for exc, s in raised:
            if exc.cls == "StopIteration":
                outs.append(("normal", None, s))
            else:
                outs.append(("raise", exc, s))
        for v, s in results:
            s = self.fork(s)
            self.assign(n.target, v, s)
            for kind, val, s2 in self.run(n.body, s):
                if kind in ("normal", "continue"):
                    self.loop_frame_check(lid, n, spec, s0, s, s2)
                    self.oblige(f"loop{lid}/inv-preserved", s2, spec.inv(s2), kind="invariant")
                elif kind == "break":
                    outs.append(("normal", None, s2))
                else:
                    outs.append((kind, val, s2))
        return outs

    # ------------------------------------------------------------------ loops with invariants: frame check
    @staticmethod
    def _same_value(a, b):
        if a is b:
            return True
        if is_sym(a) and is_sym(b):
            try:
                return a.eq(b)
            except Exception:  # noqa: BLE001
                return False
        if is_sym(a) or is_sym(b):
            return False
        if isinstance(a, Ref) and isinstance(b, Ref):
            return a.id == b.id
        if isinstance(a, (tuple, list)) and isinstance(b, (tuple, list)) and type(a) is type(b):
            return len(a) == len(b) and all(Engine._same_value(x, y) for x, y in zip(a, b))
        if isinstance(a, dict) and isinstance(b, dict):
            return a.keys() == b.keys() and all(Engine._same_value(a[k_], b[k_]) for k_ in a)
        if isinstance(a, Rec) and isinstance(b, Rec):
            return a.name == b.name and Engine._same_value(a.f, b.f)
        try:
            return type(a) is type(b) and bool(a == b)
        except Exception:  # noqa: BLE001
            return False

    def _only_an_inner_loop_target(self, n, name):
        """`name` is bound only as the target of `for` loops: inside this loop every read of it is inside a nested `for` that binds it,
        and so is every read of it in the rest of the function - its value at the head of an iteration is never looked at"""
        fn = getattr(self, "loop_fns", {}).get((n.lineno, n.col_offset))
        if fn is None:
            return False
        covered = set()
        for x in ast.walk(fn):
            if isinstance(x, ast.For) and any(isinstance(t_, ast.Name) and t_.id == name for t_ in ast.walk(x.target)):
                for y in x.body:
                    covered.update(id(z) for z in ast.walk(y))
                covered.update(id(z) for z in ast.walk(x.target))
        for x in ast.walk(fn):
            if isinstance(x, ast.Name) and x.id == name and id(x) not in covered:
                if isinstance(x.ctx, ast.Load) or not isinstance(x.ctx, ast.Store):
                    return False
                return False          # bound outside a `for` target as well: not this pattern
        return True

    def frame_trip(self, msg):
        """recorded, not raised: the states explored from the under-approximated head are real ones (the first iteration's), so an
        obligation that FAILS from there is reported as before; only a unit in which nothing fails must not be called held - the
        runner turns it into undecided with this reason"""
        trips = self.__dict__.setdefault("frame_trips", [])
        if msg not in trips:
            trips.append(msg)

    def loop_frame_check(self, lid, n, spec, before, head, end, heads=None):
        """A loop under an invariant is executed once from an arbitrary iteration's state (`head` = the entry state `before` with the
        specification's havoc applied).  That is sound only if everything an iteration can change was havoc'd: a local or a heap
        cell that exists at the head, that the body leaves with another value, and that the havoc left as it was at entry, would keep
        its ENTRY value in every later iteration of this execution - the code is then outside what the loop specification covers."""
        scratch = getattr(spec, "scratch", None) or ()
        own = {t_.id for t_ in ast.walk(n.target) if isinstance(t_, ast.Name)} if isinstance(n, ast.For) else set()
        heads = heads or [head]
        for depth, (fb, fh, fe) in enumerate(zip(before.frames, head.frames, end.frames)):
            for name, vh in fh.items():
                if name in own or name in scratch or name.startswith("__") or name not in fb or name not in fe:
                    continue
                havocked = any(name in hd.frames[depth] and not self._same_value(fb[name], hd.frames[depth][name]) for hd in heads if depth < len(hd.frames))
                if not havocked and not self._same_value(vh, fe[name]) and not self._only_an_inner_loop_target(n, name):
                    self.frame_trip(f"loop {lid} (line {n.lineno}) rebinds `{name}`, which its specification does not expect to change between iterations")
        for oid, hh in head.heap.items():
            if oid not in before.heap or oid not in end.heap:
                continue
            hb, he = before.heap[oid], end.heap[oid]
            havocked = any(oid in hd.heap and not self._same_value(hb, hd.heap[oid]) for hd in heads)
            if not havocked and not self._same_value(hh, he):
                what = "a list" if isinstance(hh, list) else f"an object with fields {sorted(map(str, hh))[:6]}" if isinstance(hh, dict) else "an object"
                self.frame_trip(f"loop {lid} (line {n.lineno}) changes {what} that its specification does not expect to change between iterations")

    def ex_While(self, n, st):
        lid = self.loop_ids.get((n.lineno, n.col_offset))
        spec = self.invariants.get(lid)
        if spec is None:
            raise Unsupported(f"while loop {lid} (line {n.lineno}) needs an invariant")
        outs = []
        spec.entry = st
        self.oblige(f"loop{lid}/inv-entry", st, spec.inv(st), kind="invariant")
        h0 = self.fork(st)
        heads = spec.havoc(self, h0, f"W{lid}")
        heads = heads if isinstance(heads, list) else [h0]
        for h in heads:
            h.pc.append(to_z3(spec.inv(h)))
            if not self.feasible(h.pc):
                continue
            self.rstack.append([])
            tests = self.ev(n.test, h)
            for exc, s in self.rstack.pop():
                outs.append(("raise", exc, s))
            for c, s in tests:
                for side, s2 in self.split(s, self.truth_st(c, s)):
                    if not side:
                        if n.orelse:
                            outs += self.run(n.orelse, s2)
                        else:
                            outs.append(("normal", None, s2))
                        continue
                    for kind, val, s3 in self.run(n.body, s2):
                        if kind in ("normal", "continue"):
                            self.loop_frame_check(lid, n, spec, st, h, s3, heads)
                            self.oblige(f"loop{lid}/inv-preserved", s3, spec.inv(s3), kind="invariant")
                        elif kind == "break":
                            outs.append(("normal", None, s3))
                        else:
                            outs.append((kind, val, s3))
        return outs


class LoopSpec:
    """inv(state[, k, N]) -> bool term; havoc(engine, state, tag) mutates state in place"""

    def __init__(self, inv, havoc, on_break=None, iterator=False, qinv=None, qfacts=None):
        """qinv(state[, k, N]) -> list of python callables c -> z3 Bool: universally quantified conjuncts of the invariant
        (forall c. f(c)).  They are never handed to the solver as quantifiers: a goal is skolemised at a fresh constant and
        every assumed fact is instantiated at that constant (complete for cell-wise array invariants)."""
        self.inv, self.havoc, self.on_break, self.iterator, self.qinv = inv, havoc, on_break, iterator, qinv
        # qfacts(state, k, N): definitional facts (instances of the definition of a specification function at the current
        # iteration) that are assumed, never proved
        self.qfacts = qfacts


def _as_load(t):
    t2 = ast.parse(ast.unparse(t), mode="eval").body
    return t2


# ---------------------------------------------------------------------- builtins
def _b_minmax(which):
    def f(eng, s, args, kw):
        vals = eng.iter_concrete(args[0], s) if len(args) == 1 else list(args)
        acc = as_arith(vals[0])
        for v in vals[1:]:
            acc = (Max if which == "max" else Min)(acc, as_arith(v))
        return [(acc, s)]
    return f


def _b_len(eng, s, args, kw):
    v = args[0]
    if isinstance(v, SeqV):
        if v.kind == "setcomp":
            raise Unsupported("len of a set built from a symbolic sequence")
        return [(v.length, s)]
    if isinstance(v, Ref):
        h = s.H(v)
        if isinstance(h, list):
            return [(len(h), s)]
        if "len" in h:
            return [(h["len"], s)]
        if "@items" in h:
            return [(len(h["@items"]), s)]
        for c in eng.mro(v.cls):
            if (c, "__len__") in eng.methods:
                return eng.methods[(c, "__len__")](eng, s, v, (), {})
        raise Unsupported("len of object")
    if isinstance(v, TS):
        return [(v.length(), s)]
    if isinstance(v, Rec) and v.name == "hexstr":
        return [(v.f["len"], s)]
    if isinstance(v, Rec):
        return [(len(v.f), s)]
    if is_sym(v) and z3.is_string(v):
        return [(z3.Length(v), s)]
    return [(len(v), s)]


def _b_isinstance(eng, s, args, kw):
    v, t = args
    ts = t if isinstance(t, tuple) else (t,)
    r = False
    for tt in ts:
        name = tt.name if isinstance(tt, (ClassV, Fn, Namespace)) else tt
        if isinstance(tt, Ref):
            name = getattr(eng, "isinstance_alias", {}).get(tt.cls, tt.cls)
        r = Or(r, eng.isinstance1(v, name, s))
    return [(r, s)]


def _isinstance1(self, v, name, s):
    if name == "object":
        return True
    if is_sym(v):
        if z3.is_bool(v):
            return name in ("bool", "int")
        if z3.is_int(v):
            codes = [c for (ec, _), c in self.enum_codes.items()]
            if codes and name == "int":
                return And(*[v != c for c in codes])
            mine = [c for (ec, _), c in self.enum_codes.items() if ec == name]
            if mine:
                return Or(*[v == c for c in mine])
            return name == "int"
        if z3.is_real(v):
            return name == "float"
        if z3.is_string(v):
            return name == "str"
        return False
    if isinstance(v, bool):
        return name in ("bool", "int")
    if isinstance(v, int):
        return name == "int"
    if isinstance(v, float):
        return name == "float"
    if isinstance(v, (str, TS)):
        return name == "str"
    if isinstance(v, bytes):
        return name == "bytes"
    if v is None:
        return name == "NoneType"
    if isinstance(v, tuple):
        return name == "tuple"
    if isinstance(v, Rec):
        return name == "tuple" or self.issubclass(v.name, name)
    if isinstance(v, EnumV):
        return self.issubclass(v.cls, name) or (v.cls in self.int_enums and name == "int")
    if isinstance(v, Ref):
        if isinstance(s.H(v), list):
            return name == "list"
        return self.issubclass(v.cls, name)
    if isinstance(v, ExcVal):
        return self.issubclass(v.cls, name)
    if isinstance(v, (Closure, Fn, Bound)):
        return False
    if isinstance(v, ClassV):
        return name == "type"
    if isinstance(v, SeqV):
        return name in ("list",) if v.kind == "list" else False
    if isinstance(v, frozenset):
        return name in ("frozenset",)
    raise Unsupported(f"isinstance({v!r}, {name})")


Engine.isinstance1 = _isinstance1


def _b_range(eng, s, args, kw):
    a = [as_arith(x) for x in args]
    lo, hi, step = (0, a[0], 1) if len(a) == 1 else (a[0], a[1], 1) if len(a) == 2 else a
    if not any(is_sym(x) for x in (lo, hi, step)):
        r = range(lo, hi, step)
        sv = SeqV(len(r), lambda k, st, r=r: (r[k] if not is_sym(k) else lo + step * k), "range")
    else:
        if is_sym(step):
            # symbolic positive step: n is characterised without division: (n-1)*step < hi-lo <= n*step
            eng.oblige("range-step-positive", s, to_z3(step) > 0, kind="safety")
            n = eng.sym_int("range_len")
            d = to_z3(hi) - to_z3(lo)
            s.pc += [n >= 0, z3.Implies(d <= 0, n == 0), z3.Implies(d > 0, z3.And((n - 1) * to_z3(step) < d, d <= n * to_z3(step)))]
        elif step > 0:
            n = z3.If(to_z3(hi) > to_z3(lo), (to_z3(hi) - to_z3(lo) + step - 1) / step, 0)
        else:
            n = z3.If(to_z3(lo) > to_z3(hi), (to_z3(lo) - to_z3(hi) - step - 1) / (-step), 0)
        sv = SeqV(n, lambda k, st: lo + step * k, "range")
    sv.lo, sv.hi, sv.step = lo, hi, step
    return [(sv, s)]


def _as_seq(eng, v, s):
    if isinstance(v, SeqV):
        return v
    items = eng.iter_concrete(v, s)
    return SeqV(len(items), lambda k, st, items=items: items[k] if not is_sym(k) else _sym_pick(items, k), "tuple")


def _sym_pick(items, k):
    r = items[-1]
    for i in range(len(items) - 2, -1, -1):
        r = If(k == i, items[i], r)
    return r


def _b_zip(eng, s, args, kw):
    seqs = [_as_seq(eng, a, s) for a in args]
    n = seqs[0].length
    for q in seqs[1:]:
        n = Min(n, q.length)
    return [(SeqV(n, lambda k, st: tuple(q.elem(k, st) for q in seqs), "zip"), s)]


def _b_enumerate(eng, s, args, kw):
    q = _as_seq(eng, args[0], s)
    start = args[1] if len(args) > 1 else kw.get("start", 0)
    return [(SeqV(q.length, lambda k, st: (k + start, q.elem(k, st)), "enumerate"), s)]


def _b_tuple(eng, s, args, kw):
    if not args:
        return [((), s)]
    v = args[0]
    if isinstance(v, SeqV) and is_sym(v.length):
        return [(v, s)]
    return [(tuple(eng.iter_concrete(v, s)), s)]


def _b_list(eng, s, args, kw):
    if not args:
        s = eng.fork(s)
        return [(s.new_list([]), s)]
    v = args[0]
    if isinstance(v, SeqV) and is_sym(v.length):
        return [(v, s)]
    s = eng.fork(s)
    return [(s.new_list(eng.iter_concrete(v, s)), s)]


def _b_map(eng, s, args, kw):
    f, *seqs = args
    seqs = [_as_seq(eng, q, s) for q in seqs]
    n = seqs[0].length
    for q in seqs[1:]:
        n = Min(n, q.length)

    def elem(k, st):
        res = eng.call(f, tuple(q.elem(k, st) for q in seqs), {}, st)
        if len(res) == 0:
            raise PathEnded()
        if len(res) != 1:
            raise Unsupported("forking function in map")
        return res[0][0]
    return [(SeqV(n, elem, "map"), s)]


def _b_allany(which):
    def f(eng, s, args, kw):
        items = eng.iter_concrete(args[0], s)
        ts = [eng.truth_st(x, s) for x in items]
        return [((And if which == "all" else Or)(*ts), s)]
    return f


def _b_round(eng, s, args, kw):
    x = as_arith(args[0])
    if len(args) > 1:
        raise Unsupported("round with ndigits")
    if not is_sym(x):
        return [(round(x), s)]
    if z3.is_int(x):
        return [(x, s)]
    r = _ROUND(x)
    half = z3.RealVal("1/2")
    # nearest integer; ties left unconstrained (covers Python's ties-to-even; keeps the queries linear and stable --
    # with the exact `ties to even` clause z3 went `unknown` on some aspect obligations)
    ax = z3.And(z3.ToReal(r) - x <= half, x - z3.ToReal(r) <= half)
    if not any(ax.eq(a) for a in eng.round_axioms):
        eng.round_axioms.append(ax)
    s.pc.append(ax)
    return [(r, s)]


def _b_int(eng, s, args, kw):
    if args and isinstance(args[0], Rec) and args[0].name == "digits":
        return [(args[0].f["v"], s)]
    if args and isinstance(args[0], Rec) and args[0].name == "hexstr" and len(args) == 2 and args[1] == 16:
        return [(args[0].f["val"], s)]
    if args and isinstance(args[0], Rec) and args[0].name == "junkstr":
        eng.raise_("ValueError", s)
        return []
    x = as_arith(args[0]) if args else 0
    if not is_sym(x):
        try:
            if isinstance(x, str) and len(args) > 1:
                return [(int(x, args[1]), s)]
            return [(int(x), s)]
        except ValueError:
            eng.raise_("ValueError", s)
            return []
        except TypeError:
            eng.raise_("TypeError", s)
            return []
    if z3.is_int(x):
        return [(x, s)]
    if z3.is_real(x):
        if getattr(eng, "float_trunc_unstable", False):
            # A-FLOAT refinement: a float whose mathematical value is exactly an integer N may have been computed a hair below
            # (or, when negative, above) it, so truncation gives N or the neighbour towards zero; everywhere else it is exact
            r = eng.sym_int("trunc")
            s = eng.fork(s)
            s.pc.append(z3.If(x >= 0, z3.And(z3.ToReal(r) <= x, x <= z3.ToReal(r) + 1, r >= 0), z3.And(z3.ToReal(r) - 1 <= x, x <= z3.ToReal(r), r <= 0)))
            return [(r, s)]
        return [(z3.If(x >= 0, z3.ToInt(x), -z3.ToInt(-x)), s)]
    if z3.is_string(x):
        # int(s): optional white space, optional sign, decimal digits (any Unicode Nd) with single underscores between them.
        # ASCII digits give the exact value; other digit scripts an uninterpreted one (PY_INT); anything else raises ValueError
        d_ascii = z3.Range("0", "9")
        if not eng.feasible(s.pc + [z3.Not(z3.InRe(x, z3.Plus(d_ascii)))]):
            return [(z3.StrToInt(x), s)]          # known to be a plain run of ASCII digits
        nd = getattr(eng, "unicode_nd", None) or [[48, 57]]
        d_any = z3.Union(*[z3.Range(chr(a), chr(b)) for a, b in nd]) if len(nd) > 1 else d_ascii
        ws = z3.Union(*[z3.Range(chr(a), chr(b)) for a, b in ((9, 13), (28, 32), (0x85, 0x85), (0xa0, 0xa0), (0x1680, 0x1680), (0x2000, 0x200a),
                                                            (0x2028, 0x2029), (0x202f, 0x202f), (0x205f, 0x205f), (0x3000, 0x3000))])
        sign = z3.Option(z3.Union(z3.Re("+"), z3.Re("-")))
        body = lambda d: z3.Concat(z3.Plus(d), z3.Star(z3.Concat(z3.Re("_"), z3.Plus(d))))
        full = z3.Concat(z3.Star(ws), sign, body(d_any), z3.Star(ws))
        plain = z3.Concat(sign, z3.Plus(d_ascii))
        out = []
        for ok, s2 in eng.split(s, z3.InRe(x, full)):
            if not ok:
                eng.raise_("ValueError", s2)
                continue
            neg = z3.PrefixOf(z3.StringVal("-"), x)
            signed = z3.PrefixOf(z3.StringVal("-"), x) if False else z3.Or(neg, z3.PrefixOf(z3.StringVal("+"), x))
            digits = z3.If(signed, z3.SubString(x, 1, z3.Length(x) - 1), x)
            val = z3.If(z3.InRe(x, plain), z3.If(neg, -z3.StrToInt(digits), z3.StrToInt(digits)), PY_INT(x))
            out.append((val, s2))
        return out
    raise Unsupported("int() of symbolic non-number")


PY_FLOAT = z3.Function("py_float", z3.StringSort(), z3.RealSort())
PY_INT = z3.Function("py_int", z3.StringSort(), z3.IntSort())
PY_COUNT = z3.Function("py_str_count", z3.StringSort(), z3.StringSort(), z3.IntSort())
PY_CASE = {"lower": z3.Function("py_str_lower", z3.StringSort(), z3.StringSort()), "upper": z3.Function("py_str_upper", z3.StringSort(), z3.StringSort())}


def _b_float(eng, s, args, kw):
    x = as_arith(args[0])
    if not is_sym(x):
        return [(float(x), s)]
    if z3.is_string(x):
        return [(PY_FLOAT(x), s)]      # float() of a numeric literal: an uninterpreted function of the text
    return [(z3.ToReal(x) if z3.is_int(x) else x, s)]


def _b_bool(eng, s, args, kw):
    return [(eng.truth_st(args[0], s) if args else False, s)]


def _b_abs(eng, s, args, kw):
    x = as_arith(args[0])
    return [(If(x < 0, -x, x) if is_sym(x) else abs(x), s)]


def _b_ceil(eng, s, args, kw):
    return [(ceil_(as_arith(args[0])), s)]


def _b_floor(eng, s, args, kw):
    return [(floor_(as_arith(args[0])), s)]


def _b_sum(eng, s, args, kw):
    items = eng.iter_concrete(args[0], s)
    acc = args[1] if len(args) > 1 else 0
    for x in items:
        acc = acc + as_arith(x)
    return [(acc, s)]


def _b_divmod(eng, s, args, kw):
    a, b = args
    return [((floordiv(a, b), mod(a, b)), s)]


def _b_type(eng, s, args, kw):
    v = args[0]
    if isinstance(v, Ref):
        return [(ClassV(v.cls), s)]
    if isinstance(v, EnumV):
        return [(ClassV(v.cls), s)]
    if isinstance(v, Rec):
        return [(ClassV(v.name), s)]
    if v is None:
        return [(ClassV("NoneType"), s)]
    if is_sym(v):
        return [(ClassV("bool" if z3.is_bool(v) else "int" if z3.is_int(v) else "float" if z3.is_real(v) else "str"), s)]
    if isinstance(v, (bool, int, float, str, bytes, tuple)):
        return [(ClassV(type(v).__name__), s)]
    raise Unsupported(f"type({v!r})")


def _b_getattr(eng, s, args, kw):
    o, name, *d = args
    if not isinstance(name, str):
        raise Unsupported("getattr with symbolic name")
    if d:
        if isinstance(o, Ref) and name not in s.H(o) and not any((c, name) in eng.attrs or (c, name) in eng.methods for c in eng.mro(o.cls)):
            inh = s.H(o).get("@inherit") if isinstance(s.H(o), dict) else None
            if inh is not None and name in inh:
                present, val = inh[name]
                return [((val if side else d[0]), s2) for side, s2 in eng.split(s, present)]
            return [(d[0], s)]
    return eng.getattr(o, name, s)


def _b_hasattr(eng, s, args, kw):
    o, name = args
    if isinstance(o, Ref):
        if name in s.H(o) or any((c, name) in eng.attrs or (c, name) in eng.methods for c in eng.mro(o.cls)):
            return [(True, s)]
        # attributes found further up (class / ancestors), as modelled by the object's inherited-values map
        inh = s.H(o).get("@inherit") if isinstance(s.H(o), dict) else None
        if inh is not None and name in inh:
            return [(bool(side), s2) for side, s2 in eng.split(s, inh[name][0])]
        return [(False, s)]
    raise Unsupported("hasattr on non-object")


def _b_next(eng, s, args, kw):
    return eng.call_method(args[0], "__next__", (), {}, s)


def _b_iter(eng, s, args, kw):
    v = args[0]
    if isinstance(v, Ref):
        for c in eng.mro(v.cls):
            if (c, "__iter__") in eng.methods:
                return eng.methods[(c, "__iter__")](eng, s, v, (), {})
    if isinstance(v, (tuple, list)):
        s = eng.fork(s)
        return [(s.new("@citer", {"items": tuple(v), "pos": 0}), s)]
    return [(v, s)]


def _b_str(eng, s, args, kw):
    if not args:
        return [("", s)]
    v = args[0]
    if isinstance(v, (str, TS)):
        return [(v, s)]
    if is_sym(v) and z3.is_int(v):
        return [(TS([tstr.IntDec(v)]), s)]
    if isinstance(v, int):
        return [(str(v), s)]
    if isinstance(v, ExcVal) and v.cls == "AttributeError" and len(v.args) == 1 and isinstance(v.args[0], str) and getattr(v, "engine_made", True):
        # the message CPython gives for a missing attribute (raised by the engine's own attribute lookup)
        return [(f"'object' object has no attribute '{v.args[0]}'", s)]
    return [(Opaque("str()"), s)]


def _b_repr(eng, s, args, kw):
    return [(Opaque("repr"), s)]


def _b_id(eng, s, args, kw):
    v = args[0]
    if isinstance(v, Ref):
        return [(("id", v.id), s)]
    raise Unsupported("id()")


_PY_HASH = z3.Function("py_hash", z3.IntSort(), z3.IntSort())
_PY_HASH_PAIR = z3.Function("py_hash_pair", z3.IntSort(), z3.IntSort(), z3.IntSort())


def _b_hash(eng, s, args, kw):
    """hash(x): some function of the value - equal arguments hash equal, NOTHING else (different values may collide)"""
    def enc(v):
        if isinstance(v, tuple):
            acc = z3.IntVal(len(v))
            for x in v:
                acc = _PY_HASH_PAIR(acc, enc(x))
            return acc
        if isinstance(v, Rec):
            return enc(v.astuple())
        if isinstance(v, bool) or (is_sym(v) and z3.is_bool(v)):
            return z3.If(to_z3(v), 1, 0)
        if isinstance(v, int) or (is_sym(v) and z3.is_int(v)):
            return to_z3(v)
        raise Unsupported(f"hash() of {v!r}")
    (x,) = args
    return [(_PY_HASH(enc(x)), s)]


def _b_reversed(eng, s, args, kw):
    return [(tuple(reversed(eng.iter_concrete(args[0], s))), s)]


def _b_sorted(eng, s, args, kw):
    items = eng.iter_concrete(args[0], s)
    if any(is_sym(x) for x in items):
        raise Unsupported("sorted symbolic")
    return [(sorted(items), s)]


def _b_frozenset(eng, s, args, kw):
    if not args:
        return [(frozenset(), s)]
    return [(frozenset(eng.iter_concrete(args[0], s)), s)]


def _b_callable(eng, s, args, kw):
    return [(isinstance(args[0], (Closure, Fn, Bound, ClassV)), s)]


def _b_print(eng, s, args, kw):
    raise Unsupported("print without a stream contract")


def _b_issubclass(eng, s, args, kw):
    c, t = args
    ts = t if isinstance(t, tuple) else (t,)
    return [(any(eng.issubclass(c.name, x.name) for x in ts), s)]


BUILTINS = {
    "max": _b_minmax("max"), "min": _b_minmax("min"), "len": _b_len, "isinstance": _b_isinstance, "range": _b_range,
    "zip": _b_zip, "enumerate": _b_enumerate, "tuple": _b_tuple, "list": _b_list, "map": _b_map, "all": _b_allany("all"),
    "any": _b_allany("any"), "round": _b_round, "int": _b_int, "float": _b_float, "bool": _b_bool, "abs": _b_abs,
    "ceil": _b_ceil, "floor": _b_floor, "sum": _b_sum, "divmod": _b_divmod, "type": _b_type, "getattr": _b_getattr,
    "hasattr": _b_hasattr, "next": _b_next, "iter": _b_iter, "str": _b_str, "repr": _b_repr, "id": _b_id, "hash": _b_hash,
    "reversed": _b_reversed, "sorted": _b_sorted, "frozenset": _b_frozenset, "callable": _b_callable,
    "print": _b_print, "issubclass": _b_issubclass, "set": _b_frozenset,
}
