"""C17: specification of trimming along one axis (DESIGN appendix D), written from the property statement:
the canvas axis is [0, size) = pad1 | image | pad2; the requested window is [t1, size - t2)."""
from pyvc.values import Max, Min


def overlap(lo1, hi1, lo2, hi2):
    """|[lo1, hi1) ∩ [lo2, hi2)|"""
    return Max(Min(hi1, hi2) - Max(lo1, lo2), 0)


def spec_calc_trim(size, img, t1, p1, t2, p2):
    w_lo, w_hi = t1, size - t2
    new_p1 = overlap(w_lo, w_hi, 0, p1)
    new_p2 = overlap(w_lo, w_hi, p1 + img, size)
    cut1 = Min(Max(t1 - p1, 0), img)
    cut2 = Min(Max(t2 - p2, 0), img)
    return (new_p1, cut1, cut2, new_p2)
