"""Specification of padding (C05), written from the property statement and docs/source/api/padding.rst.

Dual mode: works on python ints and on z3 terms (pyvc.values helpers).
"""
from pyvc.values import And, Or, Not, If, Max, Min, Implies, floordiv

LEFT, CENTER, RIGHT = 0, 1, 2   # HAlign / VAlign values: LEFT/TOP, CENTER/MIDDLE, RIGHT/BOTTOM


def first_side(total, align):
    """padding placed before the render on an axis: none / half (rounded down) / all"""
    return If(align == LEFT, 0, If(align == CENTER, floordiv(total, 2), total))


def spec_exact_dims(width, height, h_align, v_align, rw, rh):
    """(left, top, right, bottom) of an aligned padding with absolute minimum size (width, height)"""
    pw = Max(width - rw, 0)
    ph = Max(height - rh, 0)
    left = first_side(pw, h_align)
    top = first_side(ph, v_align)
    return (left, top, pw - left, ph - top)


def spec_padded_size_aligned(width, height, rw, rh):
    return (Max(rw, width), Max(rh, height))


def resolve_dim(d, t):
    """relative dimensions resolve to max(terminal + d, 1); positive ones are kept"""
    return If(d > 0, d, Max(t + d, 1))


def relative(width, height):
    return Not(And(width > 0, height > 0))
