"""C04: specification of automatic sizing, written from the property statement and the docs of Size / set_size.

Dual mode (python numbers or z3 terms).  A family is described by its cell geometry in "pixels":
  text     : a cell is 1 x 2 pixels, pixel ratio pr = 2 * cell_ratio
  graphics : a cell is cw x ch pixels (cell size, or (1, 2) when unknown), pixel ratio 1
"""
from pyvc.values import And, Or, Not, If, Max, Min, Implies, floordiv, truediv, ceil_, is_sym


def resolve_frame_dim(d, t):
    """frame dimension: absolute if positive, else max(terminal + d, 1)"""
    return If(d > 0, d, Max(t + d, 1))


# ---- conversions each family must implement (contracts of _pixels_cols / _pixels_lines)
def cols_to_px(fam, c, cw):
    return c if fam == "text" else c * cw


def px_to_cols(fam, p, cw):
    return p if fam == "text" else floordiv(p, cw)


def lines_to_px(fam, l, ch):
    return l * 2 if fam == "text" else l * ch


def _is_real(p):
    if is_sym(p):
        import z3
        return z3.is_real(p)
    return isinstance(p, float)


def px_to_lines(fam, p, ch):
    if fam == "text":
        if _is_real(p):
            return ceil_(truediv(p, 2))    # the real functions compute ceil(pixels / 2): also for a pixel count that is not integral
        return floordiv(p + 1, 2)          # ceil(p / 2) for an integer p
    return floordiv(p, ch)


def real(x):
    if is_sym(x):
        import z3
        return z3.ToReal(x) if z3.is_int(x) else x
    from fractions import Fraction
    return Fraction(x)


def near(d, exact):
    """`d` differs from the exact real value by less than one cell, never dropping below 1"""
    d_ = real(d)
    return Or(And(d_ - exact < 1, exact - d_ < 1), And(d == 1, exact < 1))


def exact_height_cells(W, ow, oh, pr, pxw, pxh):
    """exact aspect-preserving height in cells of an image W cells wide"""
    return real(W * pxw) / real(ow) * real(oh) * real(pr) / real(pxh)


def exact_width_cells(H, ow, oh, pr, pxw, pxh):
    return real(H * pxh) / real(oh) * real(ow) / real(pr) / real(pxw)


def clauses(label, W, H, cols, lines, ow, oh, pr, pxw, pxh, given=None):
    """the clauses of the property for one sizing mode -> {name: bool term}"""
    eh = exact_height_cells(W, ow, oh, pr, pxw, pxh)
    ew = exact_width_cells(H, ow, oh, pr, pxw, pxh)
    out = {"positive": And(W >= 1, H >= 1)}
    if label == "FIT":
        out["fits-frame"] = And(W <= cols, H <= lines)
        out["touches-frame"] = Or(W == cols, H == lines)
        out["aspect<1cell"] = Or(And(W == cols, near(H, eh)), And(H == lines, near(W, ew)))
    elif label == "FIT_TO_WIDTH":
        out["exact-frame-width"] = W == cols
        out["aspect<1cell"] = near(H, eh)
    elif label == "ORIGINAL":
        # the source size expressed in cells, each axis within one cell
        out["source-size<1cell"] = And(near(W, real(ow) / real(pxw)), near(H, real(oh) * real(pr) / real(pxh)))
    elif label == "WIDTH":
        out["given-width-kept"] = W == given
        out["aspect<1cell"] = near(H, eh)
    elif label == "HEIGHT":
        out["given-height-kept"] = H == given
        out["aspect<1cell"] = near(W, ew)
    return out
